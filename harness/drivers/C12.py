"""C12 - emu-sv StateVector / DensityMatrix / DenseOperator / SparseOperator are faithful to their definitions.

(1) TLC: SVObjects.tla.  Mechanism = int(bits, 2) index parse and item assignment of
    StateVector._from_state_amplitudes, outer product of DensityMatrix.from_state_vector, the literal 2x2
    tables / target loop / reduce(kron) / accumulation of DenseOperator._from_operator_repr and the COO
    arithmetic of SparseOperator (sparse_kron index formula, sparse_add = cat + coalesce).  Requirement =
    the index law (g=0, r=1, qubit 0 most significant; a bijection) and the Kronecker entry law on level
    strings; dense == sparse; rho = |psi><psi|.  Checked for every basis string / pair of strings and every
    operator term over an alphabet of QuditOps (incl. one QuditOp on several targets, several parts,
    two-term sums), N <= 3.
(2) Binding A: every object TLC enumerates is built with the REAL public constructors
    (from_state_amplitudes / from_operator_repr of all four classes) and compared entry by entry
    with the requirement's entries TLC prints.
(3) Random amplitude dictionaries / operator representations / raw complex vectors and matrices, 1-8
    qubits, against harness/ref/objects.py (np.kron) for construction, inner, norm, overlap, +,
    scalar *, apply_to, expect, @, dense == sparse.
"""
from __future__ import annotations

import itertools
import json
import warnings
from concurrent.futures import ThreadPoolExecutor
from pathlib import Path

import numpy as np

from harness.core import Ctx, MachineryError
from harness.pool import pmap
from harness.ref import objects as ref
from harness.tlc import printed_tuples, run_tlc

INV = ["StateOK", "DMOK", "DenseOK", "SparseOK", "SparseCoalesced"]
EIG = [("r", "g"), ("g", "r")]


def cfg_text(nq: int, ops: str, coefs: str, parts: int, log: bool = True) -> str:
    t = f"""SPECIFICATION Spec
CONSTANTS
  NQ = {nq}
  QuditOps <- {ops}
  Coefs <- {coefs}
  MaxParts = {parts}
  SecondTerms <- cSecond
"""
    for i in INV:
        t += f"INVARIANT {i}\n"
    if log:
        t += "ACTION_CONSTRAINT LogBuild\n"
    return t


def g2c(g) -> complex:
    return complex(g[0], g[1])


def parse_objects(out: str, nq: int) -> list:
    items = []
    for t in printed_tuples(out):
        if t[0] == "ST":
            amps = {"".join(a[0]): [a[1][0], a[1][1]] for a in t[1]["__set__"]}
            items.append(("ST", nq, amps, [list(e) for e in t[2]["__set__"]]))
        elif t[0] == "OP":
            fop = []
            for term in t[1]:
                parts = []
                for part in term[1]:
                    qo = {e[0] + e[1]: [e[2][0], e[2][1]] for e in part[0]["__set__"]}
                    parts.append([qo, sorted(part[1]["__set__"])])
                fop.append([[term[0][0], term[0][1]], parts])
            items.append(("OP", nq, fop, [list(e) for e in t[2]["__set__"]]))
    return items


def to_operations(fop: list, variant: int = 0) -> list:
    ops = []
    for coeff, parts in fop:
        ps = []
        for qo, targets in parts:
            tg = list(targets) if variant == 0 else (set(targets) if variant == 1 else tuple(reversed(targets)))
            ps.append(({k: complex(*v) for k, v in qo.items()}, tg))
        ops.append((complex(*coeff), ps))
    return ops


def sparse_to_dense(t) -> np.ndarray:
    return t.to_dense().numpy()


def replay_worker(items: list) -> list:
    import torch
    from emu_sv import DenseOperator, DensityMatrix, SparseOperator, StateVector

    torch.set_num_threads(1)
    warnings.filterwarnings("ignore", message="Sparse CSR tensor support")
    fails = []
    for idx, it in enumerate(items):
        kind, n, obj, entries = it
        D = 2**n
        try:
            if kind == "ST":
                exp = np.zeros(D, dtype=complex)
                for i, re, im in entries:
                    exp[i] = complex(re, im)
                exp = exp / np.linalg.norm(exp)
                amps = {s: complex(*a) for s, a in obj.items()}
                for eig in EIG:
                    sv = StateVector.from_state_amplitudes(eigenstates=eig, amplitudes=amps)
                    got = sv.data.numpy()
                    if got.shape != exp.shape or np.abs(got - exp).max() > 1e-12:
                        fails.append(("sv-objects:StateVector:from_state_amplitudes:wrong-vector",
                                      f"amplitudes {amps}: non-zero positions {np.nonzero(np.abs(got) > 1e-14)[0].tolist()} / values differ from the Kronecker construction (positions {np.nonzero(exp)[0].tolist()})",
                                      {"kind": kind, "n": n, "amplitudes": obj, "eigenstates": eig}))
                    if sv.n_qudits != n:
                        fails.append(("sv-objects:StateVector:n_qudits", f"n_qudits = {sv.n_qudits} for {n}-letter strings", {"kind": kind, "n": n, "amplitudes": obj}))
                    dm = DensityMatrix.from_state_amplitudes(eigenstates=eig, amplitudes=amps)
                    gotm = dm.data.numpy()
                    expm = np.outer(exp, exp.conj())
                    if gotm.shape != expm.shape or np.abs(gotm - expm).max() > 1e-12:
                        fails.append(("sv-objects:DensityMatrix:from_state_amplitudes:not-the-projector", f"amplitudes {amps}: density matrix differs from |psi><psi| by {np.abs(gotm - expm).max():.2e}",
                                      {"kind": kind, "n": n, "amplitudes": obj, "eigenstates": eig}))
            else:
                exp = np.zeros((D, D), dtype=complex)
                for r, c, re, im in entries:
                    exp[r, c] = complex(re, im)
                for variant in (0, 1, 2) if idx % 8 == 0 else (0,):
                    ops = to_operations(obj, variant)
                    eig = EIG[(idx + variant) % 2]
                    dop = DenseOperator.from_operator_repr(eigenstates=eig, n_qudits=n, operations=ops)
                    got = dop.data.numpy()
                    if got.shape != exp.shape or np.abs(got - exp).max() > 1e-13:
                        fails.append(("sv-objects:DenseOperator:from_operator_repr:wrong-matrix", f"differs from the Kronecker construction at {np.argwhere(np.abs(got - exp) > 1e-13)[:4].tolist()}",
                                      {"kind": kind, "n": n, "operations": obj, "eigenstates": eig}))
                    sop = SparseOperator.from_operator_repr(eigenstates=eig, n_qudits=n, operations=ops)
                    gots = sparse_to_dense(sop.data)
                    if gots.shape != exp.shape or np.abs(gots - exp).max() > 1e-13:
                        fails.append(("sv-objects:SparseOperator:from_operator_repr:wrong-matrix", f"differs from the Kronecker construction at {np.argwhere(np.abs(gots - exp) > 1e-13)[:4].tolist()}",
                                      {"kind": kind, "n": n, "operations": obj, "eigenstates": eig}))
                    if got.shape == gots.shape and np.abs(got - gots).max() > 1e-13:
                        fails.append(("sv-objects:dense-vs-sparse-differ", f"DenseOperator and SparseOperator differ by {np.abs(got - gots).max():.2e}", {"kind": kind, "n": n, "operations": obj}))
        except Exception as ex:
            fails.append((f"sv-objects:{'state' if kind == 'ST' else 'operator'}-constructor:raises-{type(ex).__name__}", f"{type(ex).__name__}: {str(ex)[:200]}", {"kind": kind, "n": n, "object": obj}))
    return fails


# ------------------------------------------------------------------------------------------- random
KEYS = ["gg", "gr", "rg", "rr"]


def rand_case(seed: int, idx: int, n: int) -> dict:
    rng = np.random.default_rng([seed, 1212, idx, n])
    D = 2**n

    def amps():
        k = int(rng.integers(1, min(D, 12) + 1)) if idx % 3 else D if D <= 64 else 40
        pos = rng.choice(D, size=min(k, D), replace=False)
        return {format(int(p), f"0{n}b").replace("0", "g").replace("1", "r"): [float(rng.normal()), float(rng.normal()) if idx % 4 else 0.0] for p in pos}

    def qo():
        ks = list(rng.choice(KEYS, size=int(rng.integers(1, 5)), replace=False))
        return {str(k): [float(rng.normal()), float(rng.normal())] for k in ks}

    def fullop():
        terms = []
        for _ in range(int(rng.integers(1, 5))):
            free = list(range(n))
            rng.shuffle(free)
            parts = []
            for _ in range(int(rng.integers(0, min(n, 3) + 1))):
                if not free:
                    break
                m = int(rng.integers(1, min(len(free), 3) + 1))
                tg, free = free[:m], free[m:]
                parts.append([qo(), [int(x) for x in tg]])
            terms.append([[float(rng.normal()), float(rng.normal())], parts])
        return terms

    return {"idx": idx, "n": n, "amps": [amps(), amps()], "ops": [fullop(), fullop()], "scalar": [float(rng.normal()), float(rng.normal())]}


def rand_worker(arg: tuple) -> dict:
    import torch
    from emu_sv import DenseOperator, DensityMatrix, SparseOperator, StateVector, inner

    torch.set_num_threads(1)
    warnings.filterwarnings("ignore", message="Sparse CSR tensor support")
    seed, cases = arg
    res = {"fails": [], "margin": 0.0, "n": 0, "notimpl": set()}

    def chk(key, got, exp, desc, scale=1.0):
        got = np.asarray(got)
        exp = np.asarray(exp)
        if got.shape != exp.shape:
            res["fails"].append((key + ":shape", f"shape {got.shape} instead of {exp.shape}", desc))
            return
        err = float(np.abs(got - exp).max()) if got.size else 0.0
        bud = 1e-12 * max(1.0, scale)
        res["margin"] = max(res["margin"], err / bud)
        if not err <= bud:
            res["fails"].append((key, f"differs from the dense definition by {err:.3e} (budget {bud:.1e}), N={desc['n']}", desc))

    for (idx, n) in cases:
        c = rand_case(seed, idx, n)
        desc = c
        D = 2**n
        rng = np.random.default_rng([seed, 1213, idx, n])
        try:
            a1 = {s: complex(*a) for s, a in c["amps"][0].items()}
            a2 = {s: complex(*a) for s, a in c["amps"][1].items()}
            z = complex(*c["scalar"])
            r1, r2 = ref.state_vector(a1), ref.state_vector(a2)
            eig = EIG[idx % 2]
            s1 = StateVector.from_state_amplitudes(eigenstates=eig, amplitudes=a1)
            s2 = StateVector.from_state_amplitudes(eigenstates=eig, amplitudes=a2)
            chk("sv-objects:StateVector:from_state_amplitudes:wrong-vector", s1.data.numpy(), r1, desc)
            # raw complex vectors too (not normalised)
            w1 = rng.normal(size=D) + 1j * rng.normal(size=D)
            w2 = rng.normal(size=D) + 1j * rng.normal(size=D)
            t1, t2 = StateVector(torch.tensor(w1), gpu=False), StateVector(torch.tensor(w2), gpu=False)
            # operations are judged against the dense definition applied to the operands' OWN data (captured
            # before the call), so a wrong constructor does not cascade into the keys of the operations
            for (x, y) in ((s1, s2), (t1, t2)):
                vx, vy = x.data.numpy().copy(), y.data.numpy().copy()
                sc = float(np.linalg.norm(vx) * np.linalg.norm(vy))
                chk("sv-objects:StateVector:inner", complex(x.inner(y)), np.vdot(vx, vy), desc, sc)
                chk("sv-objects:StateVector:inner", complex(inner(x, y)), np.vdot(vx, vy), desc, sc)
                chk("sv-objects:StateVector:norm", float(x.norm()), np.linalg.norm(vx), desc, sc)
                chk("sv-objects:StateVector:overlap", float(x.overlap(y)), abs(np.vdot(vx, vy)) ** 2, desc, sc * sc)
                chk("sv-objects:StateVector:add", (x + y).data.numpy(), vx + vy, desc, sc)
                chk("sv-objects:StateVector:scalar-mul", (z * x).data.numpy(), z * vx, desc, sc * abs(z))
                chk("sv-objects:StateVector:operand-changed", x.data.numpy(), vx, desc)
            chk("sv-objects:StateVector:raw-constructor", t1.data.numpy(), w1, desc)
            # density matrices
            d1 = DensityMatrix.from_state_amplitudes(eigenstates=eig, amplitudes=a1)
            chk("sv-objects:DensityMatrix:from_state_amplitudes:not-the-projector", d1.data.numpy(), np.outer(r1, r1.conj()), desc)
            d2 = DensityMatrix.from_state_vector(t2)
            chk("sv-objects:DensityMatrix:from_state_vector", d2.data.numpy(), np.outer(w2, w2.conj()), desc, float(np.linalg.norm(w2)) ** 2)
            if n <= 6:
                m1 = rng.normal(size=(D, D)) + 1j * rng.normal(size=(D, D))
                m2 = rng.normal(size=(D, D)) + 1j * rng.normal(size=(D, D))
                chk("sv-objects:DensityMatrix:overlap", complex(DensityMatrix(torch.tensor(m1), gpu=False).overlap(DensityMatrix(torch.tensor(m2), gpu=False))),
                    np.trace(m1.conj().T @ m2), desc, float(np.linalg.norm(m1) * np.linalg.norm(m2)))
            chk("sv-objects:DensityMatrix:overlap", complex(d1.overlap(d2)), np.trace(d1.data.numpy().conj().T @ d2.data.numpy()), desc, float(np.linalg.norm(w2)) ** 2)
            for nm, f in (("add", lambda: d1 + d2), ("scalar-mul", lambda: 2.0 * d1)):
                try:
                    f()
                except NotImplementedError:
                    res["notimpl"].add(f"DensityMatrix.{nm}")
            # operators
            o1, o2 = to_operations(c["ops"][0], idx % 3), to_operations(c["ops"][1], 0)
            R1, R2 = ref.operator(n, to_operations(c["ops"][0])), ref.operator(n, to_operations(c["ops"][1]))
            sc1, sc2 = float(np.abs(R1).sum(axis=1).max()) + 1, float(np.abs(R2).sum(axis=1).max()) + 1
            D1 = DenseOperator.from_operator_repr(eigenstates=eig, n_qudits=n, operations=o1)
            D2 = DenseOperator.from_operator_repr(eigenstates=eig, n_qudits=n, operations=o2)
            S1 = SparseOperator.from_operator_repr(eigenstates=eig, n_qudits=n, operations=o1)
            S2 = SparseOperator.from_operator_repr(eigenstates=eig, n_qudits=n, operations=o2)
            chk("sv-objects:DenseOperator:from_operator_repr:wrong-matrix", D1.data.numpy(), R1, desc, sc1)
            chk("sv-objects:SparseOperator:from_operator_repr:wrong-matrix", sparse_to_dense(S1.data), R1, desc, sc1)
            chk("sv-objects:dense-vs-sparse-differ", sparse_to_dense(S2.data), D2.data.numpy(), desc, sc2)
            nv = float(np.linalg.norm(w1))
            # operations: against the operands' own matrices
            A1, A2 = D1.data.numpy().copy(), D2.data.numpy().copy()
            B1, B2 = sparse_to_dense(S1.data).copy(), sparse_to_dense(S2.data).copy()
            x1 = s1.data.numpy().copy()
            chk("sv-objects:DenseOperator:apply_to", D1.apply_to(t1).data.numpy(), A1 @ w1, desc, sc1 * nv)
            chk("sv-objects:SparseOperator:apply_to", S1.apply_to(t1).data.numpy(), B1 @ w1, desc, sc1 * nv)
            chk("sv-objects:DenseOperator:expect", complex(D1.expect(t1)), np.vdot(w1, A1 @ w1), desc, sc1 * nv * nv)
            chk("sv-objects:SparseOperator:expect", complex(S1.expect(t1)), np.vdot(w1, B1 @ w1), desc, sc1 * nv * nv)
            chk("sv-objects:DenseOperator:expect", complex(D2.expect(s1)), np.vdot(x1, A2 @ x1), desc, sc2)
            chk("sv-objects:DenseOperator:add", (D1 + D2).data.numpy(), A1 + A2, desc, sc1 + sc2)
            chk("sv-objects:SparseOperator:add", sparse_to_dense((S1 + S2).data), B1 + B2, desc, sc1 + sc2)
            chk("sv-objects:DenseOperator:scalar-mul", (z * D1).data.numpy(), z * A1, desc, sc1 * abs(z))
            chk("sv-objects:SparseOperator:scalar-mul", sparse_to_dense((z * S1).data), z * B1, desc, sc1 * abs(z))
            chk("sv-objects:DenseOperator:matmul", (D1 @ D2).data.numpy(), A1 @ A2, desc, sc1 * sc2)
            try:
                S1 @ S2
            except NotImplementedError:
                res["notimpl"].add("SparseOperator.matmul")
            chk("sv-objects:DenseOperator:operand-changed", D1.data.numpy(), A1, desc, sc1)
            chk("sv-objects:SparseOperator:operand-changed", sparse_to_dense(S1.data), B1, desc, sc1)
            # raw matrices
            if n <= 6:
                M = rng.normal(size=(D, D)) + 1j * rng.normal(size=(D, D))
                M[rng.random((D, D)) < 0.6] = 0.0
                DM_, SM_ = DenseOperator(torch.tensor(M), gpu=False), SparseOperator(torch.tensor(M).to_sparse_csr(), gpu=False)
                scm = float(np.abs(M).sum(axis=1).max()) + 1
                chk("sv-objects:DenseOperator:apply_to", DM_.apply_to(t2).data.numpy(), M @ w2, desc, scm * float(np.linalg.norm(w2)))
                chk("sv-objects:SparseOperator:apply_to", SM_.apply_to(t2).data.numpy(), M @ w2, desc, scm * float(np.linalg.norm(w2)))
                chk("sv-objects:DenseOperator:raw-constructor", DM_.data.numpy(), M, desc, scm)
                chk("sv-objects:SparseOperator:raw-constructor", sparse_to_dense(SM_.data), M, desc, scm)
                chk("sv-objects:SparseOperator:add", sparse_to_dense((SM_ + S1).data), M + B1, desc, scm + sc1)
                chk("sv-objects:DenseOperator:matmul", (DM_ @ D1).data.numpy(), M @ A1, desc, scm * sc1)
        except Exception as ex:
            import traceback

            res["fails"].append((f"sv-objects:raises-{type(ex).__name__}", f"{type(ex).__name__}: {str(ex)[:160]} @ {traceback.format_exc().splitlines()[-3].strip()[:120]}", desc))
        res["n"] += 1
    res["notimpl"] = sorted(res["notimpl"])
    return res


def final_coverage_zero(res: dict) -> list:
    """Actions never taken according to the LAST coverage snapshot of a TLC run (run_tlc's `coverage_zero`
    also counts the intermediate snapshots TLC prints every minute, where late actions still show 0)."""
    import re as _re

    out = res.get("out", "")
    k = out.rfind("The coverage statistics at")
    if k < 0:
        return sorted(res.get("coverage_zero") or [])
    zero = []
    for line in out[k:].splitlines():
        m = _re.match(r"^<(\w+) line \d+, col \d+ to line \d+, col \d+ of module \w+>: (\d+):(\d+)", line.strip())
        if m and int(m.group(3)) == 0:
            zero.append(m.group(1))
    return sorted(set(zero))


def _isolated(fn, arg):
    """fn(arg) in a fresh single-use process; returns (result, crashed)."""
    import concurrent.futures as cf
    import multiprocessing as mp
    from concurrent.futures.process import BrokenProcessPool

    from harness import pool

    try:
        with cf.ProcessPoolExecutor(max_workers=1, mp_context=mp.get_context("spawn"), initializer=pool._init) as ex:
            return ex.submit(fn, arg).result(), False
    except BrokenProcessPool:
        return None, True


def robust_map(ctx: Ctx, fn, chunks: list, procs: int, wrap, unwrap) -> tuple[list, list]:
    """pmap that survives a hard crash (segfault / abort) of the code under test: the crashing chunk is
    bisected in fresh processes down to one item, which is returned in the second list."""
    from concurrent.futures.process import BrokenProcessPool

    try:
        return pmap(fn, chunks, procs=procs), []
    except BrokenProcessPool:
        ctx.log("a worker process died (crash inside the code under test); isolating the input")
    results, crashed = [], []
    for ch in chunks:
        r, bad = _isolated(fn, ch)
        if not bad:
            results.append(r)
            continue
        items = unwrap(ch)
        while len(items) > 1:
            half = items[: len(items) // 2]
            _, bad_half = _isolated(fn, wrap(ch, half))
            items = half if bad_half else items[len(items) // 2:]
        crashed.append(items[0])
        if len(crashed) >= 2:
            break
    return results, crashed


def run(ctx: Ctx) -> None:
    import os

    ctx.level = "model_checking"
    ctx.assumptions += [
        "SVObjects.tla's mechanism is a transcription of the four _from_* constructors; the real constructors are compared with the requirement on every object TLC enumerates, so the transcription is not trusted for the verdict",
        "nested symbolic operator names cannot reach the constructors through pulser-core 1.9.1's public from_operator_repr (its validation only admits two-letter projector keys); 'repeated targets' = one QuditOp applied to several targets",
        "level order fixed g=0, r=1 whatever the order of the `eigenstates` argument (both orders are exercised)",
        "DensityMatrix + / scalar * and SparseOperator @ raise NotImplementedError by design: recorded, not judged",
        "reference: harness/ref/objects.py (np.kron construction); numpy; TLC; GPU placement not exercised",
    ]
    procs = int(os.environ.get("VERIF_PROCS", "16"))
    seed = ctx.seed
    fails: dict[str, dict] = {}

    def note(key, what, desc):
        cur = fails.get(key)
        if cur is None:
            fails[key] = {"count": 1, "what": what, "desc": desc}
        else:
            cur["count"] += 1
            if desc.get("n", 99) < cur["desc"].get("n", 99):
                cur["what"], cur["desc"] = what, desc

    if ctx.replay:
        rp = json.loads(Path(ctx.replay).read_text())["replay"]
        if "idx" in rp:
            r = rand_worker((rp.get("seed", seed), [(rp["idx"], rp["n"])]))
            for key, what, desc in r["fails"]:
                ctx.violation(key, what, desc)
        else:
            obj = rp.get("amplitudes") or rp.get("operations") or rp.get("object")
            item = (rp["kind"], rp["n"], obj, rp.get("entries", []))
            for key, what, desc in replay_worker([item]):
                ctx.violation(key, what, desc)
        ctx.case("replay-a")
        ctx.case("replay-b")
        ctx.coverage["rule"] = "replay of one stored case"
        return

    jobs = [("n1", 1, cfg_text(1, "cOpsFull", "cCoefs", 1)), ("n2", 2, cfg_text(2, "cOpsFull", "cCoefs", 2)), ("n3small", 3, cfg_text(3, "cOpsSmall", "cCoefs1", 3))]
    if not ctx.quick:
        jobs += [("n3full", 3, cfg_text(3, "cOpsFull", "cCoefs", 3)), ("n4small", 4, cfg_text(4, "cOpsSmall", "cCoefs1", 1))]

    def job(j):
        return run_tlc("MCSVObjects", None, workdir=ctx.work, name=j[0], cfg_text=j[2], workers=max(2, min(8, procs // 2)) if j[1] >= 3 else 2, coverage=True, timeout=3000)

    with ThreadPoolExecutor(max_workers=max(2, procs // 4)) as ex:
        results = list(ex.map(job, jobs))
    items = []
    model_bad = []
    for j, res in zip(jobs, results):
        res["coverage_zero"] = final_coverage_zero(res)
        ctx.add_tlc(res)
        ctx.log(f"TLC {j[0]}: {res.get('distinct')} states, {res['wall_s']} s, violated={res['violated']}")
        if res["violated"]:
            model_bad.append((j[0], res["violated"]))
            continue
        if final_coverage_zero(res):
            ctx.notes.append(f"{j[0]}: spec actions never taken: {final_coverage_zero(res)}")
        p = parse_objects(res["out"], j[1])
        if not p:
            raise MachineryError(f"no objects printed by TLC for {j[0]}")
        items += p
    ctx.coverage["tlc_model_violations"] = [f"{a}: {b}" for a, b in model_bad]
    seen = set()
    uniq = []
    for it in items:
        k = json.dumps(it[:3], sort_keys=True)
        if k not in seen:
            seen.add(k)
            uniq.append(it)
    csz = max(40, len(uniq) // (4 * procs) + 1)
    parts, crashed = robust_map(ctx, replay_worker, [uniq[a:a + csz] for a in range(0, len(uniq), csz)], procs, lambda ch, items: items, lambda ch: list(ch))
    for part in parts:
        for key, what, desc in part:
            note(key, what, desc)
    for it in crashed:
        note(f"sv-objects:{'state' if it[0] == 'ST' else 'operator'}-constructor:crashes-the-interpreter",
             "building this object with the real constructors kills the Python process (segmentation fault / abort)", {"kind": it[0], "n": it[1], "object": it[2], "entries": it[3]})
    nst = sum(1 for it in uniq if it[0] == "ST")
    for it in uniq:
        nontriv = bool(it[3]) and (it[0] == "ST" or any(parts for _, parts in it[2]))
        ctx.case((it[0], it[1], json.dumps(it[2], sort_keys=True)), nontrivial=nontriv,
                 sample={"kind": it[0], "n": it[1], "object": it[2], "expected_entries": it[3][:6]} if nontriv and it[1] == 2 and (it[0] == "ST" or len(it[2][0][1]) == 2) else None)
    ctx.traces_validated += len(uniq)
    ctx.log(f"replayed {len(uniq)} TLC-enumerated objects on the real constructors ({nst} amplitude sets, {len(uniq) - nst} operator representations)")
    ctx.coverage["replayed_objects"] = {"states": nst, "operators": len(uniq) - nst}

    per_n = ctx.pick({1: 30, 2: 40, 3: 40, 4: 40, 5: 30, 6: 20, 7: 10, 8: 6}, {1: 300, 2: 400, 3: 500, 4: 500, 5: 400, 6: 300, 7: 120, 8: 60})
    cases = [(i, n) for n, cnt in per_n.items() for i in range(cnt)]
    cases.sort(key=lambda c: -c[1])
    nchunk = 4 * procs
    worst = 0.0
    notimpl = set()
    parts2, crashed2 = robust_map(ctx, rand_worker, [(seed, cases[a::nchunk]) for a in range(nchunk) if cases[a::nchunk]], procs,
                                  lambda ch, items: (ch[0], items), lambda ch: list(ch[1]))
    for (i, n) in crashed2:
        note("sv-objects:random-case:crashes-the-interpreter", f"random case (N={n}, index {i}) kills the Python process (segmentation fault / abort)", {"idx": i, "n": n, "seed": seed})
    for res in parts2:
        worst = max(worst, res["margin"])
        notimpl |= set(res["notimpl"])
        for key, what, desc in res["fails"]:
            note(key, what, desc)
    for (i, n) in cases:
        ctx.case(("rand", n, i))
    rc = rand_case(seed, 1, 2)
    ctx.sample({"random_case": {"n": 2, "amplitudes": rc["amps"][0], "operations": rc["ops"][0]}})
    ctx.log(f"random comparison: {len(cases)} cases, worst err/budget {worst:.3g}; not implemented by design: {sorted(notimpl)}")
    ctx.coverage["worst_margin_err_over_budget"] = worst
    ctx.coverage["not_implemented_by_design"] = sorted(notimpl)
    ctx.coverage["random_cases_per_N"] = {str(k): v for k, v in per_n.items()}

    for key in sorted(fails):
        f = fails[key]
        ctx.violation(key, f"{f['what']} [{f['count']} cases]", f["desc"])
    if model_bad and not fails:
        ctx.model_drift(f"SVObjects' mechanism violates its requirement ({model_bad}) but the real constructors agree with the requirement on every enumerated object")
    ctx.coverage["rule"] = ("object = amplitude set (1-2 basis strings) or operator representation (1-2 terms, <=3 parts, QuditOp alphabet) enumerated by TLC and built with the real constructors; "
                            "non-trivial = non-zero expected entries and, for operators, at least one QuditOp part; random case = (N, index)")
    ctx.coverage["exhaustive"] = True
