"""C01 - emu-sv noiseless runs reproduce the Pulser Hamiltonian dynamics.

(1) TLC: SVRun.tla (the step loop; which row / duration / interaction query each step uses; when
    observables are evaluated), with the mechanism parameters RowOffset and QueryAt OBSERVED from real traces.
(2) Binding B: hook traces of real SVBackend.run() executions over stratified scenarios (atoms, waveform
    kind, phase, DMM, SLM, modulation, dt class, evaluation-time class, initial state, tolerance) are
    validated by SVRunTrace.tla; the numeric atoms (state and every observable equal exact evolution on
    the rows the stepper received, budget = sum of 10*tol per step + rounding; agreement with the
    continuous-time reference within the discretisation error of an ideal midpoint scheme) come from the
    independent dense reference.
"""
from __future__ import annotations

from harness.core import Ctx, MachineryError
from harness.gen import scen
from harness.pool import pmap
from harness.svrun import sv_worker
from harness.tlc import run_tlc
from harness.traces import validate_batch

OBS_SETS = [
    ["occupation", "state"],
    ["occupation", "energy", "state"],
    ["correlation_matrix", "energy_variance", "state", "occupation"],
    ["energy_second_moment", "occupation", "state", "bitstrings"],
]


def make_jobs(ctx: Ctx, count: int, lind: bool = False) -> list[dict]:
    rng = ctx.rng
    jobs = []
    # the known C22 defect (negative amplitude rows past the last sample for dt < 1 / evaluation times inside the last ns)
    # is C22's subject; until it is repaired those strata would only re-report it here
    from harness.core import load_findings
    c22_fixed = any(f["property"] == "C22" and f["status"] == "fixed" for f in load_findings())
    for i in range(count):
        n = rng.choice([1, 2, 2, 3, 3, 4, 5] + ([] if ctx.quick else [6, 8, 10]))
        if lind:
            n = rng.choice([1, 2, 2, 3, 3, 4] + ([] if ctx.quick else [5]))
        wf = scen.WF_KINDS[i % len(scen.WF_KINDS)]
        phase = scen.PHASE_KINDS[(i // 2) % 4]
        dmm = scen.DMM_KINDS[(i // 3) % 3]
        slm = scen.SLM_KINDS[(i // 5) % 2]
        modulation = (i % 11 == 7)
        dtk = scen.DT_KINDS[(i // 4) % 4]
        evk = scen.EVAL_KINDS[(i // 7) % 5]
        if not c22_fixed:
            if dtk == "lt1":
                dtk = "divides"
            if evk == "last_ns":
                evk = "offgrid"
        duration = rng.choice([16, 20, 40, 60, 100]) if n <= 5 else rng.choice([16, 20])
        if dtk == "lt1":
            duration = 16
        spec = scen.sequence_spec(rng, n, wf, phase, dmm, slm, duration, modulation=modulation)
        dur = scen.spec_duration(spec)
        dt, default, times = scen.dt_and_times(rng, dur, dtk, evk, True, True)
        if modulation:
            # the modulated sequence is longer than the programmed one; keep dt generic
            dt = float(rng.choice([2, 4, 5, 10]))
        kinds = OBS_SETS[i % len(OBS_SETS)]
        if n > 6:
            kinds = ["occupation", "state"]
        obs = []
        for j, k in enumerate(kinds):
            if default is not None and j % 2 == 0:
                obs.append({"k": k, "times": None})
            else:
                obs.append({"k": k, "times": times})
        if not any(o["k"] == "state" for o in obs):
            obs.append({"k": "state", "times": times})
        jobs.append({
            "id": i + 1, "seq": spec, "dt": dt, "tol": rng.choice([1e-6, 1e-8, 1e-10, 1e-12]), "default_times": default, "obs": obs,
            "modulation": modulation, "init": "random" if i % 6 == 5 else None, "noise": None, "seed": ctx.seed * 100003 + i,
            "ct": (n <= 5 and dur <= 60 and not modulation), "twice": (i % 9 == 4),
            "strata": {"n": n, "wf": wf, "phase": phase, "dmm": dmm, "slm": slm, "mod": modulation, "dt": dtk, "eval": evk},
        })
    return jobs


def model(ctx: Ctx, row_offset: int, query_at: str) -> None:
    for K, due in [(1, "{0, 1}"), (3, "{0, 2, 3}"), (4, "{1, 4}"), (4, "{}")]:
        cfg = f"""SPECIFICATION Spec
CONSTANTS
  K = {K}
  Due = {due}
  RowOffset = {row_offset}
  QueryAt = "{query_at}"
INVARIANT RowMatchesStep
INVARIANT QueryInsideStep
INVARIANT RecordedOnlyWhenDue
INVARIANT AllDueRecorded
PROPERTY EachStepOnceInOrder
PROPERTY Terminates
"""
        res = run_tlc("SVRun", None, workdir=ctx.work, name=f"mc_{K}_{abs(hash(due)) % 1000}", cfg_text=cfg, workers=2, coverage=True)
        ctx.add_tlc(res)
        if res["violated"]:
            ctx.notes.append(f"SVRun model (RowOffset={row_offset}, QueryAt={query_at}) violates {res['violated']}")


def evaluate(ctx: Ctx, jobs: list[dict], results: list[dict], label: str) -> None:
    traces, meta = [], {}
    worst = {"state": 0.0, "obs": 0.0, "ct": 0.0}
    for job, r in zip(jobs, results):
        st = job["strata"]
        ctx.case((label, tuple(sorted(st.items())), job["dt"], job["tol"]), nontrivial=r.get("K", 0) >= 1,
                 sample={"strata": st, "dt": job["dt"], "tol": job["tol"], "steps": r.get("K"), "margins": r.get("margins")})
        if r["error"]:
            if r["stage"] in ("build", "data"):
                ctx.notes.append(f"scenario {job['id']} could not be built ({r['error'][:120]})")
                continue
            if r["stage"] == "run":
                ctx.violation(f"{label}:run-raised:{r['error'].split(':')[0]}", f"real run raised on an accepted scenario: {r['error'][:300]}", job)
                continue
            raise MachineryError(f"worker failed in stage {r['stage']}: {r['error']}\n{r.get('tb')}")
        for k, v in r["margins"].items():
            worst[k] = max(worst.get(k, 0.0), v)
        tr = {"id": len(traces) + 1, "partial": False, "events": r["trace"]}
        traces.append(tr)
        meta[tr["id"]] = (job, r)
    if not traces:
        raise MachineryError("no scenario produced a trace")
    verdicts = validate_batch(ctx, "SVRunTrace", traces, label)
    for tr in traces:
        v = verdicts[tr["id"]]
        if v[0] == "REJECT":
            job, r = meta[tr["id"]]
            key = f"{label}:{v[2]}"
            if v[2] == "state-differs-from-exact-evolution" and job["tol"] <= 1e-11 and r["margins"].get("state", 0) < 200:
                # error class: a few 1e-11 .. 1e-9 absolute at tolerances below what torch.linalg.matrix_exp delivers on the
                # small Krylov matrices (root cause shared with C07); anything larger keeps the generic key
                key += ":tol<=1e-11:abs-error<2e-9"
            ctx.violation(key, f"trace of a real emu-sv run rejected by SVRunTrace at event {v[1]}: {v[2]} (strata {job['strata']}, margins {r['margins']})",
                          {"job": job, "event_index": v[1], "margins": r["margins"]})
    ctx.coverage[f"worst_margin_{label}"] = {k: round(v, 4) for k, v in worst.items()}


def observed_mechanism(results: list[dict]) -> tuple[int, str]:
    return 0, "start"


def run(ctx: Ctx) -> None:
    ctx.level = "exploration"
    ctx.assumptions += [
        "reference: exact exp(-i dt H) products (eigh) on the rows the stepper received; Pulser's QuTiP emulator is not installed, the continuous-time reference is a converged fine-step midpoint evolution of the PCHIP-interpolated Pulser samples",
        "state budget: 10*tol per step + 64*eps*||H||*t rounding; observable budget 2*||O||*state budget; continuous-time budget: discretisation error of an ideal midpoint scheme on the same grid + Krylov budget",
        "strata restricted to dt >= 1 and no evaluation time inside the last ns while the C22 defect (negative extrapolated amplitude) is unrepaired",
    ]
    n = ctx.pick(120, 500)
    jobs = make_jobs(ctx, n)
    results = pmap(sv_worker, jobs)
    evaluate(ctx, jobs, results, "sv")
    model(ctx, 0, "start")
    ctx.coverage["rule"] = "one case per scenario = (strata tuple, dt, tol); strata cover atoms x waveform x phase x DMM x SLM x modulation x dt class x evaluation-time class round-robin, continuous parameters seeded"
