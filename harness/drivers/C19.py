"""C19 - Brent root finding terminates inside the bracket at a sign change.

(1) TLC: Brent.tla (mechanism BrentFn = transcription of BrentsRootFinder, exact rationals) against an
    adversarial environment; invariants SignChange / InInitial / InBracket / StrictInside / Bounded /
    ReturnedOK, action property Nested, liveness Terminates.
(2) Binding A: the real BrentsRootFinder on fractions.Fraction is explored over the SAME ordinate
    alphabet (every ordinate sequence, memoised on the real object's state); the requirement is
    evaluated on the real object; the real transition relation is compared with the one TLC printed
    (equal => the exhaustive TLC result transfers; different => model drift, reported not alarmed).
(3) Binding B: float traces of find_root_brents / one-at-a-time feeding validated by BrentTrace.tla.
"""
from __future__ import annotations

import math
from fractions import Fraction as F

from harness.core import Ctx, MachineryError
from harness.tlc import printed_tuples, run_tlc
from harness.traces import rank_map, validate_batch

CONFIGS = {
    # name: (Start, End, Ords, Tol, Eps, MaxSteps)
    "solver16": ("cZero", "cSixteen", "cOrds6", "cOne", "cOne", 12),
    "default4": ("cZero", "cFour", "cOrdsP2", "cHalf", "cEighth", 14),
    "default8": ("cZero", "cEight", "cOrds6", "cHalf", "cEighth", 14),
    "wide8": ("cZero", "cEight", "cOrdsWide", "cOne", "cOne", 12),
}
PY = {
    "cZero": F(0), "cOne": F(1), "cFour": F(4), "cEight": F(8), "cSixteen": F(16), "cQuarter": F(1, 4), "cMilli": F(1, 1000),
    "cOrds6": [F(1), F(2), F(3), F(-1), F(-2), F(-3)],
    "cOrdsP2": [F(1), F(2), F(4), F(-1), F(-2), F(-4)], "cEighth": F(1, 8), "cHalf": F(1, 2),
    "cOrdsWide": [F(1), F(5), F(40), F(-1), F(-5), F(-40)],
}


def cfg_text(c, log: bool, live: bool) -> str:
    s, e, o, t, eps, ms = c
    txt = f"""SPECIFICATION Spec
CONSTANTS
  Start <- {s}
  End <- {e}
  Ords <- {o}
  Tol <- {t}
  Eps <- {eps}
  MaxSteps = {ms}
  LogTransitions = {"TRUE" if log else "FALSE"}
INVARIANT SignChange
INVARIANT InInitial
INVARIANT InBracket
INVARIANT StrictInside
INVARIANT Bounded
INVARIANT ReturnedOK
PROPERTY Nested
"""
    if live:
        txt += "PROPERTY Terminates\n"
    if log:
        txt += "ACTION_CONSTRAINT LogStep\n"
    return txt


def fr(v) -> F:
    return F(v[0], v[1])


def proj_model(r: dict) -> tuple:
    return (fr(r["a"]), fr(r["b"]), fr(r["fa"]), fr(r["fb"]), fr(r["c"]), fr(r["d"]), fr(r["fc"]), bool(r["bis"]))


def proj_real(o):
    """Mechanism state as BrentFn.tla names it; None when the real object no longer carries these attributes (a refactoring):
    the requirement checks below need only the bracket (a, b, fa, fb) and the guess."""
    try:
        return (F(o.a), F(o.b), F(o.fa), F(o.fb), F(o.c), F(o.d), F(o.fc), bool(o.bisection))
    except AttributeError:
        return None


def state_key(o) -> tuple:
    """Complete state of the real object, whatever its attributes are called (memoisation key of the exploration)."""
    import math
    out = []
    for k_, v_ in sorted(vars(o).items()):
        if isinstance(v_, bool) or not isinstance(v_, (int, float)):
            out.append((k_, repr(v_)))
        elif math.isfinite(v_):
            out.append((k_, F(v_)))
        else:
            out.append((k_, repr(v_)))
    return tuple(out)


def clone(o):
    import copy
    return copy.copy(o)


def explore_real(ctx: Ctx, cname: str, c) -> tuple[set, int]:
    """Every ordinate sequence over the spec's alphabet on the REAL object (memoised on its state).
    Returns the set of real transitions (pc, state, label, pc', state')."""
    from emu_base.math.brents_root_finding import BrentsRootFinder

    start, end, ords, tol, eps, max_steps = PY[c[0]], PY[c[1]], PY[c[2]], PY[c[3]], PY[c[4]], c[5]
    trans = set()
    seen = {}
    frontier = []
    for fs in ords:
        for fe in ords:
            if fs * fe < 0:
                o = BrentsRootFinder(start=start, end=end, f_start=fs, f_end=fe, epsilon=eps)
                k = ("loop", state_key(o), None)
                if k not in seen:
                    seen[k] = (o, 0, [("new", fs, fe)])
                    frontier.append(k)
    n_paths_done = 0
    unprojectable = [False]
    while frontier:
        nxt = []
        for k in frontier:
            o, steps, path = seen[k]
            pc = k[0]
            pk = proj_real(o)
            if pk is None:
                unprojectable[0] = True
            lo, hi = min(o.a, o.b), max(o.a, o.b)
            if pc == "loop":
                if o.is_converged(tol):
                    n_paths_done += 1
                    ok = abs(o.b - o.a) < tol and o.fa * o.fb < 0 and o.current_guess == o.b and start <= lo and hi <= end
                    ctx.case(("done", cname, k[1]), sample={"config": cname, "ordinates": [str(x) for p in path for x in p[1:]], "root": str(o.current_guess)})
                    if not ok:
                        ctx.violation(f"brent:{cname}:returned-not-at-sign-change", "real BrentsRootFinder converged on a bracket without sign change / wider than tol / guess not an end",
                                      {"config": cname, "path": path, "a": o.a, "b": o.b, "fa": o.fa, "fb": o.fb})
                    trans.add(("loop", pk, "finish", "done", pk))
                    continue
                if steps >= max_steps:
                    ctx.violation(f"brent:{cname}:not-terminating", f"real BrentsRootFinder needs more than {max_steps} evaluations (model bound) on an adversarial ordinate sequence",
                                  {"config": cname, "path": path})
                    continue
                o2 = clone(o)
                try:
                    x = o2.get_next_abscissa()
                except Exception as ex:  # ZeroDivisionError etc.
                    ctx.violation(f"brent:{cname}:raises", f"get_next_abscissa raised {type(ex).__name__}", {"config": cname, "path": path})
                    continue
                if not (lo <= x <= hi and start <= x <= end):
                    ctx.violation(f"brent:{cname}:query-outside-bracket", "real BrentsRootFinder queried a point outside its bracket",
                                  {"config": cname, "path": path, "x": x, "lo": lo, "hi": hi})
                if not (lo < x < hi):
                    ctx.violation(f"brent:{cname}:no-progress", "real BrentsRootFinder queried an end point of its bracket (no progress)",
                                  {"config": cname, "path": path, "x": x, "lo": lo, "hi": hi})
                if not getattr(o2, "bisection", True):
                    ctx.coverage["interpolation_steps"] = ctx.coverage.get("interpolation_steps", 0) + 1
                k2 = ("tell", state_key(o2), F(x))
                trans.add(("loop", pk, "ask", "tell", proj_real(o2), F(x)))
                if k2 not in seen:
                    seen[k2] = (o2, steps, path + [("ask", x)])
                    nxt.append(k2)
            else:
                x = k[2]
                for ordv in ords:
                    o2 = clone(o)
                    o2.provide_ordinate(x, ordv)
                    lo2, hi2 = min(o2.a, o2.b), max(o2.a, o2.b)
                    if not (o2.fa * o2.fb < 0):
                        ctx.violation(f"brent:{cname}:sign-change-lost", "bracket of the real BrentsRootFinder lost its sign change",
                                      {"config": cname, "path": path + [("tell", ordv)]})
                    if not (lo <= lo2 and hi2 <= hi):
                        ctx.violation(f"brent:{cname}:bracket-grew", "bracket of the real BrentsRootFinder is not nested in the previous one",
                                      {"config": cname, "path": path + [("tell", ordv)]})
                    k2 = ("loop", state_key(o2), None)
                    trans.add(("tell", pk, ("tell", ordv), "loop", proj_real(o2)))
                    if k2 not in seen:
                        seen[k2] = (o2, steps + 1, path + [("tell", ordv)])
                        nxt.append(k2)
        frontier = nxt
    return (None if unprojectable[0] else trans), n_paths_done


def model_transitions(out: str) -> set:
    trans = set()
    for t in printed_tuples(out, "T"):
        _, pc, r, steps, last, pc2, r2, steps2, last2 = t
        if pc == "loop" and pc2 == "tell":
            trans.add(("loop", proj_model(r), "ask", "tell", proj_model(r2), fr(r2["nxt"])))
        elif pc == "tell":
            trans.add(("tell", proj_model(r), ("tell", fr(last2[0])), "loop", proj_model(r2)))
        elif pc2 == "done":
            trans.add(("loop", proj_model(r), "finish", "done", proj_model(r2)))
    return trans


# ------------------------------------------------------------------ float traces (binding B)
def float_traces(ctx: Ctx, n: int) -> list[dict]:
    from emu_base.math.brents_root_finding import BrentsRootFinder

    rng = ctx.rng
    traces = []
    for i in range(n):
        kind = rng.choice(["poly", "step", "tanh", "adversarial", "cubic_flat", "solver_like", "exact_root"])
        a = rng.uniform(-100, 100)
        w = rng.choice([1e-3, 1.0, 7.3, 50.0, 1e4])
        b = a + w * rng.uniform(0.1, 1.0)
        root = a + (b - a) * rng.uniform(0.001, 0.999)
        tol = rng.choice([1e-9, 1e-6, 1e-3, 1.0]) * max(1.0, (b - a) if kind == "solver_like" else 1.0) if kind != "solver_like" else 1.0
        eps = rng.choice([1e-6, 1e-3, 1.0]) if kind != "solver_like" else 1.0
        adv_state = {"n": 0}
        if kind == "poly":
            p = rng.choice([1, 3, 5, 7])
            f = lambda x, r=root, p=p: (x - r) ** p
        elif kind == "step":
            hl, hr = rng.uniform(0.1, 5), rng.uniform(0.1, 5)
            f = lambda x, r=root, hl=hl, hr=hr: -hl if x < r else hr
        elif kind == "tanh":
            s = rng.choice([0.01, 1, 100, 1e4])
            f = lambda x, r=root, s=s: math.tanh(s * (x - r))
        elif kind == "cubic_flat":
            f = lambda x, r=root: (x - r) ** 3 * 1e-6 + (1e-12 if x >= r else -1e-12)
        elif kind == "exact_root":
            root = a + (b - a) * 0.5
            f = lambda x, r=root: x - r
        elif kind == "solver_like":
            a = float(rng.randrange(0, 500)); b = a + rng.choice([1.0, 2.0, 10.0, 50.0, 0.5 * 3])
            root = a + (b - a) * rng.uniform(0.001, 0.999)
            th = rng.uniform(0.05, 0.95)
            f = lambda x, a=a, b=b, th=th, r=root: math.exp(-(x - a) / (r - a) * -math.log(th)) - th if r > a else -1.0
            tol = 1.0
        else:  # adversarial: sign fixed by side of a hidden root, magnitude random (incl. tiny / huge)
            f = lambda x, r=root: (1 if x >= r else -1) * 10 ** rng.uniform(-12, 6)
        fa, fb = f(a), f(b)
        if not (fa * fb < 0):
            continue
        evs = []
        raw = [a, b]
        try:
            o = BrentsRootFinder(start=a, end=b, f_start=fa, f_end=fb, epsilon=eps)
            steps = 0
            log = []
            while not o.is_converged(tol) and steps < 400:
                x = o.get_next_abscissa()
                fx = f(x)
                o.provide_ordinate(x, fx)
                log.append((x, fx, o.a, o.b))
                raw += [x, o.a, o.b]
                steps += 1
            done = o.is_converged(tol)
        except Exception as ex:
            ctx.violation("brent:float:raises", f"BrentsRootFinder raised {type(ex).__name__} on a sign-changing bracket", {"kind": kind, "a": a, "b": b, "tol": tol, "eps": eps})
            continue
        # the public entry point with the same inputs: its result must lie in the bracket, within `tol` of the (only) sign change;
        # every kind above changes sign exactly at `root` (the adversarial kind draws magnitudes at random, so it is left to the loop)
        if kind != "adversarial" and done:
            from emu_base.math.brents_root_finding import find_root_brents
            nq = {"n": 0}

            def fcount(x, _f=f, _c=nq):
                _c["n"] += 1
                if _c["n"] > 2000:
                    raise RuntimeError("more than 2000 evaluations")
                return _f(x)
            try:
                xr = find_root_brents(fcount, start=a, end=b, f_start=fa, f_end=fb, tolerance=tol, epsilon=eps)
                slack = 4 * 2.220446049250313e-16 * max(abs(a), abs(b), 1.0)
                if not (min(a, b) <= xr <= max(a, b)):
                    ctx.violation("brent:public:result-outside-bracket", f"find_root_brents returned {xr!r} outside [{a!r}, {b!r}]", {"kind": kind, "a": a, "b": b, "tol": tol, "eps": eps, "root": root})
                elif abs(xr - root) > tol + slack:
                    ctx.violation("brent:public:result-not-within-tolerance-of-the-sign-change",
                                  f"find_root_brents(tolerance={tol!r}, epsilon={eps!r}) returned {xr!r}; the only sign change is at {root!r}: distance {abs(xr - root):.3e} > tolerance",
                                  {"kind": kind, "a": a, "b": b, "tol": tol, "eps": eps, "root": root, "returned": xr})
            except Exception as ex:
                ctx.violation("brent:public:raises", f"find_root_brents raised {type(ex).__name__}: {ex}", {"kind": kind, "a": a, "b": b, "tol": tol, "eps": eps})
        raw.append(o.current_guess)
        rk = rank_map(raw)
        sg = lambda v: (v > 0) - (v < 0)
        evs.append({"ev": "new", "s": rk[a], "e": rk[b], "ss": sg(fa), "se": sg(fb)})
        for (x, fx, aa, bb) in log:
            evs.append({"ev": "ask", "x": rk[x]})
            evs.append({"ev": "tell", "x": rk[x], "sg": sg(fx), "a": rk[aa], "b": rk[bb]})
        if done:
            evs.append({"ev": "done", "g": rk[o.current_guess], "a": rk[o.a], "b": rk[o.b], "widthOK": bool(abs(o.b - o.a) < tol)})
        traces.append({"id": len(traces) + 1, "partial": False, "events": evs,
                       "meta": {"kind": kind, "a": repr(a), "b": repr(b), "tol": repr(tol), "eps": repr(eps), "steps": steps, "root": repr(root)}})
        if not done:
            ctx.violation("brent:float:not-terminating", "find_root_brents loop did not converge within 400 evaluations", traces[-1]["meta"])
    return traces


def run(ctx: Ctx) -> None:
    ctx.level = "model_checking"
    ctx.assumptions += [
        "BrentFn.tla is a line-by-line transcription of BrentsRootFinder; its faithfulness is CHECKED every run: the real class (on fractions.Fraction, exact) is explored over the same ordinate alphabet and its transition relation compared with TLC's",
        "exhaustive only for the listed brackets / ordinate alphabets; other brackets are covered by float traces (order-level contract)",
        "TLC, Python fractions",
    ]
    names = ["solver16", "default4"] if ctx.quick else list(CONFIGS)
    for cname in names:
        c = CONFIGS[cname]
        # (1) exhaustive model checking incl. liveness
        res = run_tlc("MCBrent", None, workdir=ctx.work, name=f"mc_{cname}", cfg_text=cfg_text(c, False, True), coverage=True)
        ctx.add_tlc(res)
        if res["violated"]:
            # the model of the CODE violates the requirement: reproduce on the real object below
            ctx.log(f"TLC: model violates {res['violated']} for {cname}")
        if res.get("coverage_zero"):
            ctx.notes.append(f"{cname}: spec actions never taken: {res['coverage_zero']}")
        # (2) transitions for the binding
        res2 = run_tlc("MCBrent", None, workdir=ctx.work, name=f"log_{cname}", cfg_text=cfg_text(c, True, False))
        mt = model_transitions(res2["out"])
        if not mt:
            raise MachineryError("no transitions printed by TLC")
        rt, npaths = explore_real(ctx, cname, c)
        if rt is None:
            ctx.model_drift(f"{cname}: the real BrentsRootFinder no longer exposes the mechanism state of BrentFn.tla (a, b, fa, fb, c, d, fc, bisection): "
                            f"requirement checks ran on {npaths} converged real states, the transition-by-transition comparison was skipped")
            ctx.coverage.setdefault("binding_A", {})[cname] = {"model_transitions": len(mt), "real_transitions": None}
            continue
        only_model = mt - rt
        only_real = rt - mt
        ctx.log(f"{cname}: TLC {res['distinct']} states; model transitions {len(mt)}, real transitions {len(rt)}, converged real states {npaths}")
        ctx.coverage.setdefault("binding_A", {})[cname] = {"model_transitions": len(mt), "real_transitions": len(rt), "only_model": len(only_model), "only_real": len(only_real)}
        if only_model or only_real:
            ex = next(iter(only_real or only_model))
            ctx.model_drift(f"{cname}: real BrentsRootFinder and BrentFn.tla differ on {len(only_model)}+{len(only_real)} transitions, e.g. {ex}")
            if res["violated"]:
                pass
        elif res["violated"]:
            # no drift and the model violates the requirement => the real exploration above must have reported it too
            if ctx.n_violations == 0 and not ctx.known_seen:
                raise MachineryError(f"TLC reports {res['violated']} but the real exploration found nothing (binding inconsistent)")
    # (3) float traces
    n = ctx.pick(1500, 20000)
    traces = float_traces(ctx, n)
    verdicts = validate_batch(ctx, "BrentTrace", [{k: v for k, v in t.items() if k != "meta"} for t in traces], "float")
    nrej = 0
    for t in traces:
        v = verdicts[t["id"]]
        ctx.case(("float", t["meta"]["kind"], t["meta"]["a"], t["meta"]["b"], t["meta"]["tol"]), nontrivial=t["meta"]["steps"] > 0)
        if v[0] == "REJECT":
            nrej += 1
            ctx.violation(f"brent:float:{v[2]}", f"float trace of BrentsRootFinder rejected by BrentTrace at event {v[1]}: {v[2]}", t)
    ctx.sample({"float_trace": traces[0]["meta"], "events": traces[0]["events"][:6]})
    ctx.coverage["float_traces"] = len(traces)
    ctx.coverage["rule"] = ("exact: every ordinate sequence over the spec alphabet on the real class (memoised by object state), one case per converged real state; "
                            "float: one case per (function kind, bracket, tol) trace with >= 1 evaluation")
    ctx.coverage["exhaustive"] = True
