"""C25 - badly prepared atoms behave as absent, on both backends.

(1) TLC, spec/QubitOrder.tla restricted to runs with state-preparation errors: the mechanism
    (init_dark_qubits filter of drives / qubit_count, permute-then-filter of the interaction matrix,
    fill_results padding through extended_mps_factors / extended_mpo_factors, inverse permutation;
    emu-sv's zeroing) against DarkStayGround, DarkDoNotInteract, OthersAsReducedRegister,
    RunsForEveryMask, LabelCoherent, ResultsInRegisterOrder -- all masks (none .. all atoms dark), all
    register orders, all optimiser outputs, 2 and 3 levels, n <= 4 (5 thorough); exhaustively for
    the revision of the mechanism that is meant to satisfy them and for the revision the tree is
    observed to follow.
(2) Binding A: TLC-enumerated (mask, optimiser output, register order, levels) scenarios are replayed
    through MPSBackend._run_from_sequence_data / SVBackend._run_from_sequence_data with hand-set
    bad_atoms + state_prep_error > 0 on a SequenceData obtained from the real PulserData (raw, and
    with Pulser's own zeroing), and through Pulser's own trajectory draw; reorder on (optimiser forced)
    / off; leakage level, dephasing / relaxation at a negligible rate (code paths).  Oracles: (tight)
    the same backend on the REDUCED register inserted in the required site order -- the same
    computation; (loose for TDVP / tight for emu-sv) the dense reference of the reduced register.
    Projected runs go back to TLC, which evaluates the requirement on them (binding C).
"""
from __future__ import annotations

import json
import os
import random

from harness.core import Ctx, MachineryError
from harness.tlc import run_tlc
from harness.drivers import _qorder as Q

C25_INVS = ["InvRuns", "InvLabelCoherent", "InvCoherentAtUpdateH", "InvDarkDoNotInteract", "InvDarkStayGround", "InvReducedRegister", "InvResultsInRegisterOrder"]


def _masks(n: int) -> list[list[bool]]:
    return [[bool((m >> a) & 1) for a in range(n)] for m in range(2**n)]


def _sample(rng: random.Random, n: int, per_mask: int, all_perms: bool) -> list[dict]:
    perms = Q.all_perms(n)
    ident = list(range(n))
    out = []
    for m in _masks(n):
        ps = perms if all_perms else rng.sample(perms, min(len(perms), per_mask))
        for p in ps:
            for dim in (2, 3) if rng.random() < 0.5 else (2,):
                out.append({"backend": "mps", "n": n, "rho": rng.choice(perms), "optp": p, "reorder": True, "spe": True, "dark": m, "given": False, "dim": dim})
        for _ in range(2):
            out.append({"backend": "mps", "n": n, "rho": rng.choice(perms), "optp": ident, "reorder": False, "spe": True, "dark": m, "given": False, "dim": rng.choice([2, 3])})
            out.append({"backend": "sv", "n": n, "rho": rng.choice(perms), "optp": ident, "reorder": False, "spe": True, "dark": m, "given": False, "dim": 2})
    return out


def _key_for(x: dict) -> str:
    c, rec = x["case"], x["rec"]
    b, vr = c["backend"], x["verdict_res"]
    n = c["phys"]["n"]
    good = sum(1 for d in c["dark"] if not d)
    if vr.startswith("raise:"):
        if b == "mps" and good <= 1:
            return "mps:dark-atoms:good<=1"
        if b == "mps" and c["dim"] == 3 and good < n:
            return "mps:dark-atoms:leakage-padding-dim2"
        return f"{b}:dark-atoms:raises:{vr.split(':')[1]}"
    sd = rec.get("site_drive")
    required = [a for a in Q.site_order(c) if not c["dark"][a]]
    si = rec.get("site_imat")
    if b == "mps" and c["reorder"] and sd is not None and (sd != required or (si is not None and len(si) >= 2 and si != required)):
        return "mps:reorder:dark-mask-not-in-site-order"
    return f"{b}:dark-atoms:{vr}" + (":reorder" if c["reorder"] else "") + (":leakage" if c["dim"] == 3 else "")


def _judge(ctx: Ctx, results: list[dict], preds: dict | None, n_scen: int) -> dict:
    st = {"runs": 0, "scenario_runs": n_scen, "violations": 0, "worst_margin_tight": 0.0, "worst_margin_loose": 0.0, "min_bits_p": 1.0, "drift": 0,
          "by_mode": {}, "by_good_atoms": {}, "leakage_runs": 0, "noise_runs": 0}
    for x in results:
        c, rec, o = x["case"], x["rec"], x["obs"]
        n = c["phys"]["n"]
        st["runs"] += 1
        good = sum(1 for d in c["dark"] if not d) if c["spe"] else n
        if not c.get("is_ref"):
            st["by_mode"][c["mode"]] = st["by_mode"].get(c["mode"], 0) + 1
            st["by_good_atoms"][str(good)] = st["by_good_atoms"].get(str(good), 0) + 1
            st["leakage_runs"] += int(c["dim"] == 3)
            st["noise_runs"] += int(bool(c.get("extra_noise")))
        if x["verdict_res"] == "ok":
            mk = "worst_margin_tight" if x["ref_kind"] != "dense" or c["backend"] == "sv" or good <= 1 else "worst_margin_loose"
            st[mk] = max(st[mk], rec.get("margin", 0.0))
            st["min_bits_p"] = min(st["min_bits_p"], rec.get("bits_pmin", 1.0))
        ctx.case(("dark", c["phys"]["id"], c["backend"], c["rho"], c["optp"], c["reorder"], c["dark"] if c["spe"] else "reduced", c["dim"], c["mode"], c.get("extra_noise")),
                 nontrivial=bool(c["spe"] and any(c["dark"])),
                 sample={"backend": c["backend"], "register_order": c["rho"], "optimiser_returns": c["optp"], "reorder": c["reorder"], "dark": c["dark"], "levels": c["dim"],
                         "mode": c["mode"], "oracle": x["ref_kind"], "margin": rec.get("margin"), "verdict": x["verdict_res"]} if st["runs"] % 131 == 1 else None)
        if c.get("force", True) and c["reorder"] and c["backend"] == "mps" and o["outcome"] == "ok" and o["hooks"].get("perm") != c["optp"]:
            raise MachineryError(f"forced permutation {c['optp']} not taken: mps_new.perm = {o['hooks'].get('perm')}")
        if x["verdict_res"] != "ok":
            st["violations"] += 1
            ctx.violation(
                _key_for(x),
                f"{c['backend']} run with dark atoms {c['dark']} ({good} well prepared, {c['dim']} levels, mode {c['mode']}, noise {c.get('extra_noise')}) reports {x['verdict_res']} "
                f"(site level: {x['verdict_full']}; drive labels at sites {rec.get('site_drive')}, interaction labels {rec.get('site_imat')}; register order {c['rho']}, "
                f"optimiser output {c['optp']}, reorder={c['reorder']}; outcome {o['outcome'][:90]}; error / budget = {rec.get('margin'):.3g} against the {x['ref_kind']} oracle)",
                {"case": c, "observed": {k: o.get(k) for k in ("outcome", "atom_order", "occupation", "energy", "hooks")},
                 "how": "harness.drivers._qorder.run_case(case); oracle: run_case(tight_ref_case(case, 'reduced')[1]) and reference(phys, dark)"},
            )
        elif x["verdict_full"] != "ok" and c["mode"] != "handset-pulser":
            ctx.model_drift(f"{c['id']}: site-level labels incoherent ({x['verdict_full']}) but every reported value is right")
        if preds is not None and not c.get("is_ref"):
            p = preds.get(Q.scen_key(Q.scen_of(c)))
            if p is None:
                raise MachineryError(f"no TLC prediction for scenario {Q.scen_of(c)}")
            diffs = []
            if (p["outcome"] == "ok") != (o["outcome"] == "ok"):
                diffs.append(f"outcome model={p['outcome']} real={o['outcome'][:60]}")
            elif c["backend"] == "mps" and p["outcome"] == "ok" and rec.get("site_drive") is not None:
                pd_ = [h[0] for h in p["ham"]]
                if pd_ != rec["site_drive"]:
                    diffs.append(f"drive labels at sites model={pd_} real={rec['site_drive']}")
                wp = [not bool(d) for d in (o["hooks"].get("dark") or [])]
                if wp != p["wp"]:
                    diffs.append(f"well_prepared filter model={p['wp']} real={wp}")
            if not diffs and (p["verdict"] == "ok") != (x["verdict_full"] == "ok") and c["mode"] == "handset":
                diffs.append(f"verdict model={p['verdict']} real={x['verdict_full']}")
            if diffs:
                st["drift"] += 1
                if st["drift"] <= 3:
                    ctx.model_drift(f"{c['id']} {Q.scen_of(c)}: " + "; ".join(diffs))
    return st


def run(ctx: Ctx) -> None:
    ctx.level = "model_checking"
    workers = int(os.environ.get("VERIF_TLC_WORKERS", "16"))
    rng = random.Random(ctx.seed * 1000003 + 2525)
    if ctx.replay:                                   # ./check C25 --replay <file>: re-run that one scenario
        case = json.loads(open(ctx.replay).read())["replay"]["case"]
        ctx.coverage["rule"] = "replay of one recorded scenario"
        ctx.log(f"replay: {_judge(ctx, Q.replay_cases(ctx, [case], policy='reduced', name='replayfile', alpha=1e-15), None, 1)}")
        return
    ctx.assumptions += [
        "QubitOrderFn.tla transcribes init_dark_qubits / _get_interaction_matrix / fill_results padding / permute_results (emu-mps) and init_dark_qubits (emu-sv); the revision the tree follows is observed from hook values and outcomes; every replayed run is compared with the model's prediction (differences => model_drift)",
        "SequenceData with hand-set bad_atoms is built by dataclasses.replace on one obtained from the real PulserData; 'raw' leaves drives and interactions of the marked atoms as they are (the backend has to ignore them), 'handset-pulser' zeroes them as Pulser does, 'pulser-trajectory' lets Pulser draw the mask",
        "tight oracle: the same backend on the reduced register inserted in the required site order (same chain, same Hamiltonian); dense numpy/scipy reference of the reduced register: tight for emu-sv, loose for TDVP (projection error is not controlled by `precision`)",
        "leakage / dephasing / relaxation enter at a rate of 1e-7 / us: they select the three-level and the jump / Lindblad code paths without changing any value beyond 1e-5 (added to the budget); emu-sv has no leakage support, so 3 levels are emu-mps only",
        "bitstring claims are exact binomial tests at a family-wise error rate of 1e-9 per invocation; a dark atom must never be measured in r",
        "TLC; Pulser's Sequence / sampler / NoiseModel API; numpy / scipy",
    ]
    variant, info = Q.detect_variant(ctx)
    ctx.coverage["mechanism_variant_observed"] = {"variant": variant, "probes": info}
    ctx.log(f"mechanism revision observed on the tree: {variant} {info}")

    # ---------------------------------------------------------------- (1) TLC
    maxn = ctx.pick(4, 5)
    res = run_tlc("MCQubitOrder", None, workdir=ctx.work, name="mc_repaired", workers=workers, timeout=3000,
                  cfg_text=Q.qo_cfg(Q.REPAIRED, maxn, 4, 0, "cBoth", "spe", False, False, C25_INVS))
    ctx.add_tlc(res)
    if res["violated"]:
        raise MachineryError(f"the repaired revision of the mechanism violates the requirement in the model: {res['violated']} (spec bug) see {res['outfile']}")
    ctx.log(f"TLC: repaired mechanism |= C25 requirement, all masks, n <= {maxn}: {res['distinct']} states")
    cov = run_tlc("MCQubitOrder", None, workdir=ctx.work, name="mc_coverage", workers=4, coverage=True,
                  cfg_text=Q.qo_cfg(variant, 2, 2, 0, "cBoth", "spe", False, False, []))
    ctx.add_tlc(cov)
    if cov.get("coverage_zero"):
        ctx.notes.append(f"spec actions never taken: {cov['coverage_zero']}")
    model_violates = []
    if variant != Q.REPAIRED:
        r2 = run_tlc("MCQubitOrder", None, workdir=ctx.work, name="mc_observed", workers=workers,
                     cfg_text=Q.qo_cfg(variant, 3, 3, 0, "cBoth", "spe", False, False, C25_INVS))
        ctx.add_tlc(r2)
        model_violates = [v[1] for v in r2["violated"]]
        ctx.log(f"TLC: the mechanism revision the tree follows ({variant}) violates {model_violates} in the model")
    ctx.coverage["model_of_tree_violates"] = model_violates

    # ---------------------------------------------------------------- (2) binding A
    alpha = 1e-9 / 4e6
    n_enum = 3
    preds = Q.tlc_predictions(ctx, "enum", variant, maxn=n_enum, backends="cBoth", focus="spe", dim3=n_enum, pair=0, workers=workers)
    scen = [dict(zip(Q.SCEN_FIELDS, json.loads(k))) for k in preds]
    big = _sample(rng, 4, ctx.pick(6, 24), all_perms=not ctx.quick)
    if not ctx.quick:
        big += _sample(rng, 5, 6, False) + _sample(rng, 6, 2, False)
        for n in (7, 8):
            ms = rng.sample(_masks(n), 24)
            perms_n = [rng.sample(range(n), n) for _ in range(4)]
            for m in ms:
                big.append({"backend": "mps", "n": n, "rho": rng.sample(range(n), n), "optp": rng.choice(perms_n), "reorder": True, "spe": True, "dark": m, "given": False, "dim": 2})
                big.append({"backend": "sv", "n": n, "rho": rng.sample(range(n), n), "optp": list(range(n)), "reorder": False, "spe": True, "dark": m, "given": False, "dim": 2})
    for s in big:
        s["tagmode"] = "base"
    f = ctx.work / "sample_scenarios.json"
    f.write_text(json.dumps(big))
    preds.update(Q.tlc_predictions(ctx, "sample", variant, scen_file=f, workers=workers))
    nmax = max(s["n"] for s in scen + big)
    pools = {}
    for n in range(2, nmax + 1):
        pools[n] = []
        for i in range(4 if n <= 5 else 2):
            ph = Q.gen_phys(rng, n, slm=(i % 2 == 1), given=False, local2=(i % 4 >= 2))
            ph["id"] = f"n{n}-{'slm' if i % 2 else 'plain'}-{i}"
            pools[n].append(ph)
    cases = []
    modes = ["handset", "handset", "handset-pulser", "pulser-trajectory"]
    for i, s in enumerate(scen + big):
        n = s["n"]
        extra = None
        if s["dim"] == 2 and i % 5 == 3:
            extra = "dephasing" if i % 2 else "relaxation"
        cases.append({"id": f"d{i}", "phys": pools[n][i % len(pools[n])], "backend": s["backend"], "rho": s["rho"], "optp": s["optp"], "reorder": s["reorder"],
                      "spe": True, "dark": s["dark"], "given": False, "dim": s["dim"], "mode": (modes[i % 4] if n <= 5 or i % 4 != 3 else "handset") if s["dim"] == 2 and extra is None else "handset",
                      "extra_noise": extra, "shots": 1000, "seed": i + 1})
    results = Q.replay_cases(ctx, cases, policy="reduced", name="replay", alpha=alpha)
    st = _judge(ctx, results, preds, len(cases))
    ctx.coverage["binding_A"] = {**st, "enumerated_by_TLC_up_to_n": n_enum, "sampled_sizes": sorted({s["n"] for s in big})}
    ctx.log(f"binding A: {st}")
    if model_violates and st["violations"] == 0 and not ctx.known_seen:
        ctx.model_drift(f"the model of the tree ({variant}) violates {model_violates} but no replayed run does")
    ctx.coverage["worst_margin"] = {"tight (reduced-register run / emu-sv vs dense)": st["worst_margin_tight"], "loose (TDVP vs dense)": st["worst_margin_loose"],
                                    "min bitstring p-value among passes": st["min_bits_p"], "alpha per test": alpha}
    ctx.coverage["rule"] = ("one case per real run: (physical system, backend, register order, optimiser output, reordering, dark mask, levels, input mode, extra noise); "
                            f"non-trivial when at least one atom is dark; masks / optimiser outputs / register orders are TLC's enumeration for n <= {n_enum} (complete) and a covering sample above")
    ctx.coverage["exhaustive"] = False
