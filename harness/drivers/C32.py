"""C32 - qubit-order optimisation returns a valid, no-worse permutation; the permutation helpers are
mutually consistent.

(1) Helpers.  TLC, spec/Perm.tla + MCPerm.tla: the helper MECHANISM (one operator per helper of
    optimatrix/permutations.py) against the REQUIREMENT (inverting undoes permuting; lists, tuples,
    strings, vectors and matrices move the same elements) for every permutation of 1..6 elements.
    Binding A: TLC prints every (n, p, outputs); the real helpers are called with the same p on
    identity-tagged objects; binding C: what they return goes back to TLC (PermObs.tla), which
    evaluates the same laws on it; the real outputs are compared with the printed ones (drift).
(2) Optimiser.  TLC, spec/BandwidthOpt.tla: the bookkeeping of minimize_bandwidth around an ADVERSARIAL
    reverse-Cuthill-McKee step (any permutation) |= contract (permutation of all atoms, weighted
    bandwidth no larger).  Binding C: outputs of the real minimize_bandwidth for random symmetric
    matrices of size 1..30 (sparsity, signs, ties, zero rows, 1x1, all-zero, float / integer) are
    handed to TLC (BandwidthObs.tla), which evaluates the contract -- on integers directly, on floats
    through an order-exact rank projection of the products |a| * d; for integer matrices the
    candidates seen by a harness-side wrapper of minimize_bandwidth_impl are validated against the
    bookkeeping model as well (drift if they depart while the contract holds).
"""
from __future__ import annotations

import itertools
import json
import os
import random

import numpy as np

from harness.core import Ctx, MachineryError
from harness.tlc import printed_tuples, run_tlc
from harness.drivers import _qorder as Q


# ------------------------------------------------------------------------------------------ helpers
def real_helper_outputs(n: int, p: list[int]) -> dict:
    """HelperOutputs(n, p) of Perm.tla computed by the REAL helpers."""
    import torch

    import emu_mps.optimatrix as om

    perm = torch.tensor(p, dtype=torch.long)
    tags = list(range(n))
    chars = [chr(ord("a") + i) for i in range(n)]
    un = lambda s: [ord(ch) - ord("a") for ch in s]  # noqa: E731
    tagmat = torch.arange(n * n).reshape(n, n)
    unm = lambda m: [[[int(v) // n, int(v) % n] for v in row] for row in m.tolist()]  # noqa: E731
    inv = om.inv_permutation(perm)
    lst = om.permute_list(tags, perm)
    tup = om.permute_tuple(tuple(tags), perm)
    st = om.permute_string("".join(chars), perm)
    vec = om.permute_tensor(torch.tensor(tags), perm)
    mat = om.permute_tensor(tagmat, perm)
    return {
        "n": n, "p": p, "eye": om.eye_permutation(n).tolist(), "inv": inv.tolist(),
        "list": list(lst), "tuple": list(tup), "string": un(st), "vector": vec.tolist(), "matrix": unm(mat),
        "back_list": list(om.permute_list(lst, inv)), "back_tuple": list(om.permute_tuple(tup, inv)),
        "back_string": un(om.permute_string(st, inv)), "back_vector": om.permute_tensor(vec, inv).tolist(),
        "back_matrix": unm(om.permute_tensor(mat, inv)),
        "fwd_after_inv": list(om.permute_list(om.permute_list(tags, inv), perm)),
        "inv_inv": om.inv_permutation(inv).tolist(),
        "types": [type(lst).__name__, type(tup).__name__, type(st).__name__],
    }


def check_helpers(ctx: Ctx, workers: int) -> None:
    maxn = 6
    cfg = f"SPECIFICATION Spec\nCONSTANTS\n  MaxN = {maxn}\n  Log = TRUE\nINVARIANT Laws\nINVARIANT NamedLaw\nINVARIANT EyeOnly\nINVARIANT LogDone\n"
    res = run_tlc("MCPerm", None, workdir=ctx.work, name="perm_mc", cfg_text=cfg, workers=workers)
    ctx.add_tlc(res)
    if res["violated"]:
        raise MachineryError(f"Perm.tla: the helper mechanism violates its laws in the model: {res['violated']} (spec bug), see {res['outfile']}")
    cov = run_tlc("MCPerm", None, workdir=ctx.work, name="perm_cov", workers=4, coverage=True,
                  cfg_text="SPECIFICATION Spec\nCONSTANTS\n  MaxN = 3\n  Log = FALSE\nINVARIANT Laws\n")
    ctx.add_tlc(cov)
    if cov.get("coverage_zero"):
        ctx.notes.append(f"MCPerm actions never taken: {cov['coverage_zero']}")
    script = printed_tuples(res["out"], "H")
    want = sum(len(list(itertools.permutations(range(n)))) for n in range(1, maxn + 1))
    if len(script) != want:
        raise MachineryError(f"TLC printed {len(script)} helper cases, expected {want}")
    records, drift = [], 0
    for i, t in enumerate(script):
        _, n, p, inv, lst, string, vector, matrix, back_list, back_matrix, inv_inv = t
        try:
            o = real_helper_outputs(n, p)
        except Exception as ex:  # a helper refusing a permutation TLC enumerated
            ctx.case(("helpers", n, p))
            ctx.violation(f"helpers:raises:{type(ex).__name__}", f"a permutation helper raised {type(ex).__name__}: {ex} for perm {p}", {"n": n, "perm": p})
            continue
        o["id"] = i + 1
        records.append(o)
        model = {"inv": inv, "list": lst, "string": string, "vector": vector, "matrix": matrix, "back_list": back_list, "back_matrix": back_matrix, "inv_inv": inv_inv}
        diff = [k for k, v in model.items() if o[k] != v]
        if diff or o["types"] != ["list", "tuple", "str"]:
            drift += 1
            if drift <= 3:
                ctx.model_drift(f"helpers: real outputs differ from Perm.tla for n={n} p={p} in {diff or o['types']}")
    f = ctx.work / "perm_obs.json"
    f.write_text(json.dumps(records))
    r2 = run_tlc("PermObs", None, workdir=ctx.work, name="perm_obs", workers=4, env={"OBS_FILE": str(f)},
                 cfg_text="SPECIFICATION Spec\nINVARIANT Printed\n")
    if r2["violated"]:
        raise MachineryError(f"PermObs run failed: {r2['violated']} see {r2['outfile']}")
    ctx.add_tlc(r2)
    verd = {t[1]: t[2] for t in printed_tuples(r2["out"], "P")}
    bad = 0
    for o in records:
        if o["id"] not in verd:
            raise MachineryError(f"no helper verdict for record {o['id']}")
        ident = o["p"] == list(range(o["n"]))
        ctx.case(("helpers", o["n"], o["p"]), nontrivial=not ident,
                 sample={"stratum": "helpers", "n": o["n"], "perm": o["p"], "inv": o["inv"], "list": o["list"], "law": verd[o["id"]]} if o["id"] in (5, 100) else None)
        if verd[o["id"]] != "ok":
            bad += 1
            ctx.violation(f"helpers:{verd[o['id']]}", f"the permutation helpers break '{verd[o['id']]}' for perm {o['p']}: "
                          f"inv={o['inv']} list={o['list']} string={o['string']} vector={o['vector']} back_list={o['back_list']}", {"n": o["n"], "perm": o["p"], "outputs": o})
    ctx.traces_validated += len(records)
    ctx.coverage["helpers"] = {"permutations": len(records), "max_n": maxn, "law_violations": bad, "outputs_differing_from_model": drift}
    ctx.log(f"helpers: {len(records)} permutations (n <= {maxn}) on the real helpers, {bad} law violations, {drift} drifts")


# ------------------------------------------------------------------------------------------ optimiser
KINDS = ["dense", "sparse", "signed", "ties", "zero_rows", "all_zero", "banded_shuffled", "interaction", "int_small", "int_big", "f32", "block", "tiny_scale", "dense_small", "dense_small"]


def gen_matrix(rng: random.Random, idx: int) -> dict:
    kind = KINDS[idx % len(KINDS)]
    n = [1, 2, 3][idx % 3] if idx < 9 else rng.randint(1, 30)
    if kind in ("interaction", "banded_shuffled", "block") and n < 2:
        n = rng.randint(2, 30)
    nr = np.random.default_rng(rng.getrandbits(32))
    A = np.zeros((n, n))
    integer = False
    if kind == "dense_small":
        # small dense matrices with few or no random restarts: only the identity start protects "no worse"
        n = rng.randint(3, 8)
        A = nr.uniform(0.5, 10, (n, n))
    elif kind == "dense":
        A = nr.uniform(0, 10, (n, n))
    elif kind == "sparse":
        A = nr.uniform(0, 10, (n, n)) * (nr.random((n, n)) < rng.choice([0.05, 0.15, 0.4]))
    elif kind == "signed":
        A = nr.normal(0, 5, (n, n)) * (nr.random((n, n)) < 0.6)
    elif kind == "ties":
        A = nr.integers(0, 3, (n, n)).astype(float) * rng.choice([1.0, 0.5, 7.25])
    elif kind == "zero_rows":
        A = nr.uniform(0, 10, (n, n))
        for r in rng.sample(range(n), rng.randint(1, n)):
            A[r, :] = 0
            A[:, r] = 0
    elif kind == "all_zero":
        pass
    elif kind == "banded_shuffled":
        b = rng.randint(1, max(1, n // 3))
        for i in range(n):
            for j in range(n):
                if 0 < abs(i - j) <= b:
                    A[i, j] = rng.uniform(0.5, 5.0)
        p = nr.permutation(n)
        A = A[p][:, p]
    elif kind == "interaction":
        xy = nr.uniform(0, 8.0 * np.sqrt(n), (n, 2))
        for i in range(n):
            for j in range(n):
                if i != j:
                    A[i, j] = 5420158.53 / max(np.linalg.norm(xy[i] - xy[j]), 4.0) ** 6
    elif kind == "int_small":
        A = nr.integers(-4, 5, (n, n)).astype(float)
        integer = True
    elif kind == "int_big":
        A = (nr.integers(-10**6, 10**6, (n, n)) * (nr.random((n, n)) < 0.5)).astype(float)
        integer = True
    elif kind == "f32":
        A = nr.uniform(-10, 10, (n, n)).astype(np.float32).astype(float)
    elif kind == "block":
        k = rng.randint(1, n - 1)
        A[:k, :k] = nr.uniform(1, 2, (k, k))
        A[k:, k:] = nr.uniform(1, 2, (n - k, n - k))
        p = nr.permutation(n)
        A = A[p][:, p]
    elif kind == "tiny_scale":
        A = nr.uniform(0, 1, (n, n)) * 10.0 ** rng.randint(-12, 8)
    A = np.triu(A, 1)
    A = A + A.T
    if rng.random() < 0.3:
        A = A + np.diag(nr.uniform(-5, 5, n) if not integer else nr.integers(-5, 6, n).astype(float))
    samples = rng.choice([100, 100, 100, 10, 1, 0]) if kind != "dense_small" else rng.choice([0, 0, 1, 2])
    return {"id": idx + 1, "kind": kind, "n": n, "A": A.tolist(), "integer": bool(integer or np.all(A == np.round(A)) and np.max(np.abs(A), initial=0) < 2**30 // 32),
            "samples": samples, "seed": rng.getrandbits(31), "dtype": rng.choice(["float64", "float64", "float32"]) if kind in ("int_small", "ties", "all_zero") else "float64"}


def run_optimiser(job: dict) -> dict:
    import torch

    torch.set_num_threads(1)
    import emu_mps.optimatrix as om
    import emu_mps.optimatrix.optimiser as opt

    torch.manual_seed(job["seed"])
    random.seed(job["seed"])
    np.random.seed(job["seed"])
    A = torch.tensor(job["A"], dtype=getattr(torch, job["dtype"]))
    out = {"id": job["id"], "outcome": "ok", "p": None, "cands": []}
    orig = opt.minimize_bandwidth_impl
    cands = []

    def wrapped(matrix, initial_perm):
        perm, bw = orig(matrix, initial_perm)
        cands.append({"start": [int(v) for v in initial_perm.tolist()], "perm": [int(v) for v in perm.tolist()], "bw": bw})
        return perm, bw

    record = bool(job.get("record"))
    try:
        if record:
            opt.minimize_bandwidth_impl = wrapped
        p = om.minimize_bandwidth(A) if job["samples"] == 100 else om.minimize_bandwidth(A, samples=job["samples"])
        out["p"] = [int(v) for v in p.tolist()]
        out["ptype"] = f"{type(p).__name__}:{p.dtype}:{tuple(p.shape)}"
    except BaseException as ex:
        if isinstance(ex, KeyboardInterrupt):
            raise
        out["outcome"] = f"raise:{type(ex).__name__}:{str(ex)[:80]}"
    finally:
        opt.minimize_bandwidth_impl = orig
    if record and all(float(c["bw"]) == int(c["bw"]) for c in cands):
        out["cands"] = [{**c, "bw": int(c["bw"])} for c in cands]
    return out


def rank_projection(A: np.ndarray) -> tuple[list, list]:
    """V[i][j] = index of |A[i][j]| among the distinct absolute values; R[v][d] = rank of fl(|value v| * d)."""
    n = A.shape[0]
    vals = sorted(set(np.abs(A).reshape(-1).tolist()))
    index = {v: i for i, v in enumerate(vals)}
    V = [[index[abs(A[i, j])] for j in range(n)] for i in range(n)]
    prods = sorted({np.float64(v) * np.float64(d) for v in vals for d in range(n)})
    rk = {x: i for i, x in enumerate(prods)}
    R = [[rk[np.float64(v) * np.float64(d)] for d in range(n)] for v in vals]
    return V, R


def check_optimiser(ctx: Ctx, workers: int, only: dict | None = None) -> None:
    if only is not None:
        return _real_optimiser(ctx, [{"id": 1, "kind": "replay", "n": len(only["matrix"]), "A": only["matrix"], "samples": only["samples"], "seed": only["seed"],
                                      "dtype": only["dtype"], "integer": bool(np.all(np.asarray(only["matrix"]) == np.round(np.asarray(only["matrix"])))), "record": True}])
    # ---- model: bookkeeping around an adversarial RCM step |= contract
    base = "SPECIFICATION Spec\nCONSTANTS\n  N = {n}\n  Vals <- {v}\n  ReturnBest = {rb}\nINVARIANT AccTracks\nINVARIANT CandidatesHonest\nINVARIANT Contract\nINVARIANT NeverRaises\nPROPERTY Terminates\n"
    for nm, n, v in [("n3", 3, "cVals3")] + ([] if ctx.quick else [("n4", 4, "cVals01")]):
        res = run_tlc("MCBandwidthOpt", None, workdir=ctx.work, name=f"opt_{nm}", workers=workers, cfg_text=base.format(n=n, v=v, rb="TRUE"),
                      coverage=(nm == "n3"), timeout=3000)
        ctx.add_tlc(res)
        if res["violated"]:
            raise MachineryError(f"BandwidthOpt.tla violates {res['violated']} (spec bug), see {res['outfile']}")
        if res.get("coverage_zero"):
            ctx.notes.append(f"BandwidthOpt actions never taken: {res['coverage_zero']}")
        ctx.log(f"TLC: minimize_bandwidth bookkeeping |= contract, N={n}: {res['distinct']} states")
    if not ctx.quick:
        bad = run_tlc("MCBandwidthOpt", None, workdir=ctx.work, name="opt_seeded_fault", workers=workers, cfg_text=base.format(n=3, v="cVals3", rb="FALSE"))
        ctx.coverage["seeded_fault_return_last_candidate_caught_by_model"] = [v[1] for v in bad["violated"]]
        if not bad["violated"]:
            raise MachineryError("BandwidthOpt.tla does not notice the seeded fault 'return the last candidate' (vacuous requirement)")
    # ---- real outputs -> TLC
    rng = random.Random(ctx.seed * 1000003 + 3232)
    jobs = [gen_matrix(rng, i) for i in range(ctx.pick(200, 2000))]
    nrec = 0
    for j in jobs:
        if j["integer"] and j["n"] <= 12 and j["dtype"] == "float64" and nrec < ctx.pick(40, 300):
            j["record"] = True
            nrec += 1
    _real_optimiser(ctx, jobs)


def _real_optimiser(ctx: Ctx, jobs: list[dict]) -> None:
    jobs.sort(key=lambda j: -j["n"] * (j["samples"] + 1))
    outs = {o["id"]: o for o in Q.pool_map(run_optimiser, jobs, chunksize=2)}
    records = []
    st = {"matrices": len(jobs), "by_kind": {}, "raises": 0, "contract_violations": 0, "mechanism_checked": 0, "nontrivial_results": 0}
    for j in sorted(jobs, key=lambda j: j["id"]):
        o = outs[j["id"]]
        st["by_kind"][j["kind"]] = st["by_kind"].get(j["kind"], 0) + 1
        A = np.asarray(j["A"], dtype=float).reshape(j["n"], j["n"])
        if j["dtype"] == "float32":
            A = A.astype(np.float32).astype(float)
        if o["outcome"] != "ok":
            st["raises"] += 1
            ctx.case(("optimiser", j["id"]))
            ctx.violation(f"optimiser:raises:{o['outcome'].split(':')[1]}", f"minimize_bandwidth raised on a symmetric {j['n']}x{j['n']} matrix ({j['kind']}, samples={j['samples']}): {o['outcome']}",
                          {"matrix": j["A"], "samples": j["samples"], "seed": j["seed"], "dtype": j["dtype"]})
            continue
        rec = {"id": j["id"], "n": j["n"], "p": o["p"], "cands": o.get("cands") or []}
        if j["integer"]:
            rec.update(kind="int", A=[[int(v) for v in row] for row in A.tolist()], V=[], R=[])
        else:
            V, R = rank_projection(A)
            rec.update(kind="rank", A=[], V=V, R=R)
        records.append(rec)
    verd = {}
    for c0 in range(0, len(records), 400):
        part = records[c0:c0 + 400]
        f = ctx.work / f"bw_obs_{c0}.json"
        f.write_text(json.dumps(part))
        r = run_tlc("BandwidthObs", None, workdir=ctx.work, name=f"bw_obs_{c0}", workers=4, env={"OBS_FILE": str(f)}, cfg_text="SPECIFICATION Spec\nINVARIANT Printed\n", timeout=3000)
        if r["violated"]:
            raise MachineryError(f"BandwidthObs run failed: {r['violated']} see {r['outfile']}")
        ctx.add_tlc(r)
        for t in printed_tuples(r["out"], "B"):
            verd[t[1]] = (t[2], t[3])
    byid = {j["id"]: j for j in jobs}
    for rec in records:
        if rec["id"] not in verd:
            raise MachineryError(f"no contract verdict for matrix {rec['id']}")
        j = byid[rec["id"]]
        cv, mv = verd[rec["id"]]
        nontriv = rec["p"] != list(range(rec["n"]))
        st["nontrivial_results"] += int(nontriv)
        ctx.case(("optimiser", j["kind"], j["n"], j["id"]), nontrivial=nontriv and j["n"] >= 3,
                 sample={"stratum": "optimiser", "kind": j["kind"], "n": j["n"], "samples": j["samples"], "returned": rec["p"], "contract": cv, "bookkeeping": mv} if rec["id"] in (12, 40) else None)
        if cv != "ok":
            st["contract_violations"] += 1
            ctx.violation(f"optimiser:{cv}", f"minimize_bandwidth returned {rec['p']} for a symmetric {j['n']}x{j['n']} matrix ({j['kind']}, samples={j['samples']}): {cv}",
                          {"matrix": j["A"], "samples": j["samples"], "seed": j["seed"], "dtype": j["dtype"], "returned": rec["p"]})
        if mv != "not-recorded":
            st["mechanism_checked"] += 1
            if mv != "ok":
                ctx.model_drift(f"optimiser bookkeeping departs from BandwidthOpt.tla on matrix {rec['id']} ({j['kind']}, n={j['n']}): {mv}")
    ctx.traces_validated += len(records)
    ctx.coverage["optimiser"] = st
    ctx.log(f"optimiser: {st}")


def run(ctx: Ctx) -> None:
    ctx.level = "model_checking"
    workers = int(os.environ.get("VERIF_TLC_WORKERS", "16"))
    ctx.assumptions += [
        "Perm.tla transcribes optimatrix/permutations.py (0-based functions); the laws are evaluated by TLC on the model for all permutations n <= 6 and on the outputs of the real helpers for the same permutations",
        "BandwidthOpt.tla models the reverse Cuthill-McKee step as an environment that may answer any permutation; the model is exhaustive for 3x3 (4x4 thorough) matrices over small value sets",
        "float matrices reach TLC through a rank projection of the float64 products |a|*d (order-exact); the statement's 'no larger' is therefore read in float64 arithmetic, as the code computes it",
        "the contract on sizes 1..30 is explored by seeded random matrices (exploration), not exhaustively; torch / random / numpy seeded from VERIF_SEED",
        "TLC, numpy",
    ]
    if ctx.replay:                                   # ./check C32 --replay <file>
        obj = json.loads(open(ctx.replay).read())["replay"]
        ctx.coverage["rule"] = "replay of one recorded case"
        if "matrix" in obj:
            check_optimiser(ctx, workers, only=obj)
        else:
            o = real_helper_outputs(obj["n"], obj["perm"])
            ctx.case(("helpers", obj["n"], obj["perm"]))
            ctx.log(f"replay: real helper outputs {o}")
            if o["inv"] != [obj["perm"].index(i) for i in range(obj["n"])] or not all(o[k] == obj["perm"] for k in ("list", "tuple", "string", "vector")) \
                    or o["back_list"] != list(range(obj["n"])) or o["back_string"] != list(range(obj["n"])):
                ctx.violation("helpers:replay", f"the helpers still disagree for perm {obj['perm']}: {o}", obj)
        return
    check_helpers(ctx, workers)
    check_optimiser(ctx, workers)
    ctx.coverage["rule"] = ("helpers: one case per permutation of 1..6 elements (all of them; non-trivial = not the identity); optimiser: one case per "
                            "(matrix kind, size, seed); non-trivial when n >= 3 and the returned permutation is not the identity")
    ctx.coverage["exhaustive"] = False
