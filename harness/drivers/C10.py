"""C10 - MPS truncation and canonical form honour their contract.

(1) TLC: MPSOps.tla -- the mechanism (which QR / split every public MPS / MPO method performs, which
    centre it declares, which tensors it rebinds) against the requirement Canonical, NormIsCentreNorm,
    CapRespected, SplitAtCentre (+ Frame of C11), exhaustively for all histories of <= D operations on
    2..4 sites and 2 (3) Python names; four seeded mutants of the mechanism must be refuted (the
    specification is sensitive to what it claims to decide).
(2) Binding A: every distinct (abstract state, action) transition TLC explored is executed on REAL
    emu_mps.MPS objects (random qubit / qutrit tensors, random precision 1e-12..1e-2 and cap 1..64,
    one real witness per abstract state).  The requirement is evaluated on the real objects: isometry
    of every factor around the DECLARED centre, norm() vs the dense norm, bonds vs max_bond_dim,
    discarded weight of every split (harness wrapper around emu_mps.utils.split_matrix, independent
    SVD / residual), |psi_before - psi_after|^2 vs #bonds * precision^2.  Measured flags / centres /
    sharing weaker than the model's are model drift.
(3) Long histories (TLC -simulate, depth 12, 2..10 sites, 3 names) replayed on larger objects
    (bond <= 32), and real TDVP sweeps (MPSBackendImpl.progress) observed with the same wrapper.
"""
from __future__ import annotations

import json
import os

import numpy as np

from harness.core import Ctx, MachineryError
from harness.drivers import _mpsops as M
from harness.pool import pmap
from harness.tlc import run_tlc

PROP = "C10"
MUTANTS = {"truncate_no_orth": "SplitAtCentre", "apply_keeps_centre": "Canonical", "scale_inplace": "Frame", "evolve_unguarded": "Frame"}


def tlc_workers() -> int:
    return int(os.environ.get("VERIF_TLC_WORKERS", os.environ.get("VERIF_PROCS", "16")))


def model_check(ctx: Ctx, nslots: int, maxn: int, depth: int, name: str) -> list[dict]:
    res = run_tlc("MPSOps", None, workdir=ctx.work, name=name, cfg_text=M.cfg_text(2, maxn, nslots, depth, log=True),
                  workers=tlc_workers(), coverage=True, timeout=3000)
    ctx.add_tlc(res)
    if res["violated"]:
        ctx.notes.append(f"TLC: the mechanism model violates {res['violated']} ({name})")
        ctx.log(f"TLC reports {res['violated']} for the code model; the replay below decides on the real code")
    dead = [a for a in (res.get("coverage_zero") or []) if a in M.ALL_OPS or a in M.INVARIANTS]
    if dead:
        ctx.notes.append(f"{name}: never evaluated: {dead}")
    rows = M.parse_log(res["out"], nslots)
    if not rows:
        raise MachineryError("TLC printed no transitions (LogStep)")
    seen_ops = {r["op"] for r in rows}
    if set(M.ALL_OPS) - seen_ops:
        raise MachineryError(f"vacuity: actions never taken in {name}: {sorted(set(M.ALL_OPS) - seen_ops)}")
    ctx.coverage.setdefault("model", {})[name] = {"distinct_states": res.get("distinct"), "transitions": len(rows), "violated": [v[1] for v in res["violated"]]}
    return rows, res


def start_side_tlc(ctx: Ctx, sim_num: int):
    """Launch the mutant refutations and the simulator concurrently with the main model-checking run."""
    from concurrent.futures import ThreadPoolExecutor

    ex = ThreadPoolExecutor(max_workers=5)
    futs = {}
    for variant in MUTANTS:
        futs[variant] = ex.submit(run_tlc, "MPSOps", None, workdir=ctx.work, name=f"mut_{variant}",
                                  cfg_text=M.cfg_text(2, 3, 2, 3, variant=variant), workers=2, timeout=900)
    sim_dir = ctx.work / "sim"
    sim_dir.mkdir(exist_ok=True)
    w = min(4, tlc_workers())
    futs["sim"] = ex.submit(run_tlc, "MPSOps", None, workdir=ctx.work, name="sim", cfg_text=M.cfg_text(2, 10, 3, 12), workers=w,
                            simulate=f"file={sim_dir}/beh,num={max(1, sim_num // w)}", depth=13, extra=["-seed", str(ctx.seed + 11)], timeout=2400)
    ex.shutdown(wait=False)
    return futs


def mutants_refuted(ctx: Ctx, futs: dict) -> None:
    out = {}
    for variant, inv in MUTANTS.items():
        res = futs[variant].result()
        got = [v[1] for v in res["violated"]]
        out[variant] = got
        if inv not in got:
            raise MachineryError(f"specification self-test: mutant mechanism {variant} is not refuted by {inv} (got {got})")
    ctx.coverage["spec_mutants_refuted"] = out


def report(ctx: Ctx, acc: dict, prop: str, stage: str) -> None:
    for v in acc["violations"]:
        if v["prop"] == prop:
            ctx.violation(v["key"], v["what"], {"stage": stage, "n": v["n"], "params": v["params"], "path": v["path"],
                                               "how": "harness.drivers._mpsops.World(n, params); real_step for every (op,a,b,res,k) of path (1-based sites, slots)"})
    seen = set()
    for d in acc["drift"]:
        if d["key"] not in seen:
            seen.add(d["key"])
            ctx.model_drift(f"[{stage}] {d['key']}: {d['what']} (n={d['n']}, path={d['path'][-4:]})")
    cov = ctx.coverage.setdefault("replay", {})
    cov[stage] = {"transitions": acc["transitions"], "witness_states": acc["states"], "unreached_model_states": acc["unreached"],
                  "per_op": acc["ops"],
                  "worst_margin_err_over_budget": {k: round(v, 6) for k, v in sorted(acc["margins"].items()) if k.startswith(prop) or stage == "graph"},
                  "checks": {k: v for k, v in sorted(acc["checks"].items()) if k.startswith(prop)}}


def graph_replay(ctx: Ctx, rows: list[dict], nslots: int, draws: int, stage: str) -> dict:
    rng = np.random.default_rng([ctx.seed, 10, nslots])
    tasks = []
    for n in sorted({r["n"] for r in rows}):
        rn = [r for r in rows if r["n"] == n]
        for j in range(draws):
            prm = M.draw_params(rng, n, small=True)
            if j == 0:  # one coarse world per n: truncation must really discard something, with no cap in the way
                prm.update(precision=float(10 ** rng.uniform(-2.5, -1)), cap=64, decay=float(rng.choice([0.7, 0.3])), chi=max(prm["chi"], 3))
            tasks.append({"nslots": nslots, "n": n, "params": prm, "rows": rn})
    tasks.sort(key=lambda t: -len(t["rows"]))
    accs = pmap(M.replay_graph_task, tasks)
    acc = M.merge(accs)
    uniq = {(r["n"], r["pre"], r["op"], r["a"], r["b"], r["res"], r["k"]) for r in rows}
    if acc["unreached"]:
        raise MachineryError(f"{acc['unreached']} model states have no real witness (replay incomplete)")
    if acc["transitions"] != len(uniq) * draws:
        raise MachineryError(f"replayed {acc['transitions']} transitions, expected {len(uniq) * draws}")
    for u in uniq:
        ctx.case(("T", nslots) + u, nontrivial=u[2] not in ("New", "Make"))
    ctx.evaluations += acc["transitions"] - len(uniq)
    ctx.traces_validated += acc["transitions"]
    for t in tasks[:3]:
        ctx.sample({"stage": stage, "n": t["n"], "params": t["params"], "transitions": len({(r['pre'], r['op'], r['a'], r['b'], r['res'], r['k']) for r in t['rows']})})
    return acc


def simulate_replay(ctx: Ctx, futs: dict, stage: str) -> dict:
    sim_dir = ctx.work / "sim"
    res = futs["sim"].result()
    ctx.add_tlc(res)
    if res["violated"]:
        ctx.notes.append(f"TLC simulation: the mechanism model violates {res['violated']}")
    behs = M.sim_behaviours(sim_dir, 3)
    if not behs:
        raise MachineryError("TLC simulation wrote no behaviours")
    rng = np.random.default_rng([ctx.seed, 20])
    for bh in behs:
        bh["params"] = M.draw_params(rng, bh["n"], small=False)
        if bh["params"]["dim"] ** bh["n"] > 70000:
            bh["params"]["dim"] = 2
    procs = int(os.environ.get("VERIF_PROCS", "16"))
    chunks = [behs[i::procs] for i in range(procs) if behs[i::procs]]
    acc = M.merge(pmap(M.replay_paths_task, [{"behaviours": c} for c in chunks]))
    for bh in behs:
        ctx.case(("B", bh["n"], tuple((o["op"], o["a"], o["b"], o["res"], o["k"]) for o in bh["ops"])), nontrivial=len(bh["ops"]) >= 3)
    ctx.traces_validated += len(behs)
    ctx.sample({"stage": stage, "n": behs[0]["n"], "params": behs[0]["params"], "ops": [(o["op"], o["a"], o["b"], o["res"], o["k"]) for o in behs[0]["ops"]]})
    ctx.coverage.setdefault("simulated", {})["behaviours"] = len(behs)
    ctx.coverage["simulated"]["sites"] = sorted({b["n"] for b in behs})
    ctx.coverage["simulated"]["tlc_states"] = res.get("generated")
    return acc


def insitu(ctx: Ctx, count: int) -> dict:
    rng = np.random.default_rng([ctx.seed, 30])
    tasks = []
    for i in range(count):
        n = int(rng.integers(2, 8))
        tasks.append({"seed": int(rng.integers(0, 2**31)), "n": n, "steps": int(rng.integers(2, 5)), "dt": float(rng.choice([5.0, 10.0, 20.0])),
                      "precision": float(10 ** rng.uniform(-8, -2)), "cap": int(rng.choice([1, 2, 3, 4, 8, 64]))})
    acc = M.merge(pmap(M.insitu_task, tasks))
    for t in tasks:
        ctx.case(("insitu", t["n"], t["steps"], t["cap"], t["seed"]))
    ctx.sample({"stage": "insitu", **tasks[0]})
    return acc


def replay_file(ctx: Ctx, prop: str) -> None:
    """./check C10 --replay FILE : re-execute the recorded path on the real code."""
    rec = json.loads(open(ctx.replay).read())["replay"]
    if rec["params"].get("insitu"):
        acc = M.insitu_task({k: rec["params"][k] for k in ("seed", "n", "steps", "dt", "precision", "cap")})
    else:
        acc = M.replay_paths_task({"behaviours": [{"n": rec["n"], "params": rec["params"],
                                                   "ops": [dict(zip(("op", "a", "b", "res", "k"), p)) for p in rec["path"]]}]})
    report(ctx, acc, prop, "replay")
    ctx.case("replay", sample=rec)
    ctx.case("replay-2")


def run(ctx: Ctx) -> None:
    ctx.level = "model_checking"
    ctx.assumptions += [
        "MPSOps.tla transcribes the method bodies of emu_mps/mps.py, mpo.py, algebra.py, utils.py, solver_utils.py at the level of "
        "declared centre / isometry knowledge / bond caps / tensor sharing; its faithfulness is CHECKED every run: every transition of "
        "the exhaustive model is executed on real objects and the measured abstraction must be at least as strong as the model's",
        "numeric atoms come from numpy (SVD, QR-free dense contraction in harness/ref); isometry tolerance 1e-9, rounding slack 1e-12*|m|^2 on discarded weights",
        "exhaustive only up to the stated depth / sites / names; longer histories and larger tensors are sampled (TLC simulator + seeded draws)",
        "evolve_pair / evolve_single are driven through the real MPSBackendImpl._evolve with harness-computed baths; their dense accuracy is C02's subject, not C10's",
    ]
    if ctx.replay:
        return replay_file(ctx, PROP)
    depth = ctx.pick(3, 4)
    futs = start_side_tlc(ctx, ctx.pick(48, 600))
    rows, res = model_check(ctx, 2, 4, depth, f"mc_2names_d{depth}")
    mutants_refuted(ctx, futs)
    acc = graph_replay(ctx, rows, 2, ctx.pick(2, 4), "graph")
    report(ctx, acc, PROP, "graph")
    ctx.log(f"graph replay: {acc['transitions']} real transitions, {acc['states']} witnesses, violations so far {ctx.n_violations}")
    if res["violated"] and not ctx.n_violations and not ctx.known_seen and not ctx.drift:
        raise MachineryError(f"TLC refutes {res['violated']} for the code model, the real replay shows neither a violation nor drift: MPSOps.tla is out of date")
    if not ctx.quick:
        rows3, _ = model_check(ctx, 3, 3, 3, "mc_3names_d3")
        acc3 = graph_replay(ctx, rows3, 3, 1, "graph3")
        report(ctx, acc3, PROP, "graph3")
    accs = simulate_replay(ctx, futs, "simulated")
    report(ctx, accs, PROP, "simulated")
    ctx.log(f"simulated histories: {accs['transitions']} real operations")
    acci = insitu(ctx, ctx.pick(8, 64))
    report(ctx, acci, PROP, "insitu")
    ctx.coverage["rule"] = ("one case per distinct (sites, abstract pre-state, action) transition of the exhaustive TLC graph executed on a real witness "
                            "(non-trivial = not a bare constructor); one case per simulated behaviour (>= 3 operations); one per real TDVP run")
    ctx.coverage["exhaustive"] = True
