"""C02 - emu-mps TDVP runs reproduce the Pulser Hamiltonian dynamics.

(1) TLC: MPSRun.tla (TDVP mode): second-order symmetric sweep (every bond +1 step, every interior site -1
    step, checked by assertions inside the model), bath stacks, orthogonality centre, one fill per step.
(2) Binding B: hook traces of real MPSBackend.run() executions over stratified scenarios (Rydberg / XY,
    atoms, waveforms, phases, DMM, SLM, modulation, dt / evaluation-time classes, precision, bond cap,
    qubit reordering on / off, initial states) validated by MPSRunTrace.tla.  Numeric atoms from the dense
    reference: the drive row written into the MPO at every step equals the reference row of THAT step in
    SITE order (values at the point of use), the interaction matrix equals the reference matrix in site
    order, every reported observable equals exact piecewise-constant evolution within the precision budget,
    results come back in register order.
"""
from __future__ import annotations

from harness.core import Ctx, MachineryError, load_findings
from harness.gen import scen
from harness.mpsrun import mps_worker
from harness.pool import pmap
from harness.tlc import run_tlc
from harness.traces import validate_batch


def make_jobs(ctx: Ctx, count: int) -> list[dict]:
    rng = ctx.rng
    c22_fixed = any(f["property"] == "C22" and f["status"] == "fixed" for f in load_findings())
    jobs = []
    for i in range(count):
        n = rng.choice([2, 3, 3, 4, 4, 5] + ([] if ctx.quick else [6, 7, 8]))
        kind = "xy" if i % 5 == 4 else "rydberg"
        wf = scen.WF_KINDS[i % len(scen.WF_KINDS)]
        phase = scen.PHASE_KINDS[(i // 2) % 4]
        dmm = scen.DMM_KINDS[(i // 3) % 3] if kind == "rydberg" else "none"
        slm = scen.SLM_KINDS[(i // 5) % 2]
        dtk = scen.DT_KINDS[(i // 4) % 4]
        evk = scen.EVAL_KINDS[(i // 7) % 5]
        if dtk == "lt1" and not c22_fixed:
            dtk = "divides"
        if evk == "last_ns" and not c22_fixed:
            evk = "offgrid"
        duration = rng.choice([20, 30, 40, 60])
        if dtk == "lt1":
            duration = 16
        # extra strata of the statement: output modulation (AnalogDevice) and local drives next to the global one
        modulation = kind == "rydberg" and i % 13 == 6
        local = kind == "rydberg" and not modulation and i % 8 == 3
        spec = scen.sequence_spec(rng, n, wf, phase, dmm, slm, duration, modulation=modulation, amp_scale=8.0)
        if wf == "const" and phase in ("jump", "pi_echo"):
            # back-to-back pulses with bit-identical amplitude and detuning and DIFFERENT phases: the only change between two
            # consecutive steps is the phase
            adds = [o for o in spec["ops"] if o["op"] == "add"]
            if len(adds) == 2:
                a0 = adds[0]["pulse"]["amp"]["v"]
                d0 = adds[0]["pulse"]["det"]
                dv = d0.get("v", d0.get("v0", (d0.get("values") or [0.0])[0]))
                for o in adds:
                    dd = o["pulse"]["amp"]["d"]
                    o["pulse"]["amp"] = {"k": "const", "d": dd, "v": a0}
                    o["pulse"]["det"] = {"k": "const", "d": dd, "v": dv}
        if local:
            scen.add_local_phase(rng, spec)
        if kind == "xy":
            spec["channels"] = {"ryd": "mw_global"}
            spec.pop("dmm", None)
            spec["ops"] = [o for o in spec["ops"] if o["op"] != "dmm"]
        # shuffle the insertion order so that the bandwidth optimiser has something to do
        if i % 2 == 0 and n > 2:
            order = list(range(n))
            rng.shuffle(order)
            spec["coords"] = [spec["coords"][j] for j in order]
            if "slm" in spec:
                pass
        dur = scen.spec_duration(spec)
        dt, default, times = scen.dt_and_times(rng, dur, dtk, evk, True, True)
        if dt < 2 and dtk != "lt1":
            dt = float(rng.choice([2, 4, 5, 10]))
        if modulation:
            dt = float(rng.choice([2, 4, 5, 10]))   # the modulated sequence is longer than the programmed one; keep dt generic
        reorder = (i % 3 != 0)
        kinds = [["occupation", "energy"], ["occupation", "correlation_matrix"], ["occupation", "energy_variance", "energy_second_moment"], ["occupation", "state"]][i % 4]
        kinds = [k for k in kinds if k != "state"]   # StateResult disables reordering and has no dt/2 self-consistency term
        obs = [{"k": k, "times": None if (default is not None and j % 2 == 0) else times} for j, k in enumerate(kinds)]
        prec = rng.choice([1e-5, 1e-7, 1e-9])
        jobs.append({
            "id": i + 1, "seq": spec, "dt": dt, "precision": prec, "max_bond_dim": rng.choice([1024, 1024, 16]), "reorder": reorder, "solver": "tdvp",
            "obs": obs, "default_times": default, "modulation": modulation, "kind": kind, "seed": ctx.seed * 100003 + i,
            "init": [None, None, "product", "random"][i % 4] if not (dmm != "none" and False) else None,
            "strata": {"n": n, "kind": kind, "wf": wf, "phase": phase, "dmm": dmm, "slm": slm, "dt": dtk, "eval": evk, "reorder": reorder, "prec": prec, "mod": modulation, "local": local},
        })
    return jobs


def model(ctx: Ctx, mode: str = "tdvp") -> None:
    grid = [(1, 2), (2, 2), (3, 2), (4, 2), (5, 2)] if ctx.quick else [(1, 3), (2, 3), (3, 3), (4, 3), (5, 3), (6, 2)]
    for n, k in grid:
        if mode == "dmrg" and n < 2:
            continue
        cfg = f"""SPECIFICATION Spec
CONSTANTS
  N = {n}
  K = {k}
  Mode = "{mode}"
  Reorder = TRUE
  MaxSweeps = 3
  ResumePermutes = TRUE
  AllowCrash = FALSE
  UpdateAfterRebuild = TRUE
  Dark = 1
  TablesOnResume = "pickled"
INVARIANT BathShape
INVARIANT CentreFollowsSweep
INVARIANT OneFillPerStep
INVARIANT DriveWritten
INVARIANT TablesMatchSites
INVARIANT ReturnedComplete
INVARIANT ReturnedInRegisterOrder
PROPERTY StepsInOrder
PROPERTY Terminates
"""
        res = run_tlc("MCMPSRun", None, workdir=ctx.work, name=f"mc_{mode}_{n}_{k}", cfg_text=cfg, workers=4)
        ctx.add_tlc(res)
        if res["violated"]:
            ctx.notes.append(f"MPSRun model {mode} N={n} K={k} violates {res['violated']}")


def frozen_between(job: dict, perm: list) -> bool:
    """SLM mask realised as a huge DMM detuning, with a masked atom sitting between two unmasked atoms in chain order."""
    st = job["strata"]
    if st.get("slm", "none") == "none" or st.get("dmm", "none") == "none":
        return False
    ids = [f"q{i}" for i in range(len(job["seq"]["coords"]))]
    masked = set(job["seq"].get("slm") or [])
    chain = [ids[p] in masked for p in perm] if perm else [q in masked for q in ids]
    free = [i for i, m in enumerate(chain) if not m]
    return len(free) >= 2 and any(chain[i] for i in range(free[0], free[-1]))


def evaluate(ctx: Ctx, jobs: list[dict], results: list[dict], label: str) -> None:
    traces, meta = [], {}
    worst = 0.0
    for job, r in zip(jobs, results):
        st = job["strata"]
        ctx.case((label, tuple(sorted((k, str(v)) for k, v in st.items())), job["dt"]), nontrivial=r.get("K", 0) >= 1,
                 sample={"strata": st, "dt": job["dt"], "steps": r.get("K"), "perm": r.get("perm"), "margins": r.get("margins")})
        if r["error"]:
            if r["stage"] in ("build", "data"):
                ctx.notes.append(f"scenario {job['id']} could not be built ({r['error'][:120]})")
                continue
            if r["stage"] == "run":
                ctx.violation(f"{label}:run-raised:{r['error'].split(':')[0]}", f"real run raised on an accepted scenario: {r['error'][:300]}", job)
                continue
            raise MachineryError(f"worker failed in stage {r['stage']}: {r['error']}\n{r.get('tb')}")
        worst = max(worst, r["margins"].get("values", 0.0))
        tr = {"id": len(traces) + 1, "partial": False, "events": r["trace"]}
        traces.append(tr)
        meta[tr["id"]] = (job, r)
    if not traces:
        raise MachineryError("no scenario produced a trace")
    verdicts = validate_batch(ctx, "MPSRunTrace", traces, label)
    for tr in traces:
        v = verdicts[tr["id"]]
        if v[0] == "REJECT":
            job, r = meta[tr["id"]]
            nonid = r["perm"] != sorted(r["perm"])
            key = f"{label}:{v[2]}" + (":nonidentity-permutation" if nonid and v[2] in ("drive-row-differs-from-reference-row-in-site-order", "result-values-differ-from-reference") else "")
            if v[2] == "result-values-differ-from-reference" and frozen_between(job, r["perm"]):
                # two-site TDVP cannot carry entanglement across atoms frozen by the SLM detuning: their bonds stay at dimension 1
                # (or at rounding-noise level) and the driven atoms evolve in mean field, whatever dt and precision are.  The
                # finding is identified by this input class; every other clause and every other input still alarms.
                key = f"{label}:tdvp-projection-error:slm-frozen-atoms-between-interacting-atoms"
            if v[2] == "result-values-differ-from-reference" and job.get("solver", "tdvp") == "tdvp" and not key.endswith("slm-frozen-atoms-between-interacting-atoms"):
                # Second-order TDVP has a splitting error that depends on dt (and on how strongly the step is driven), not on
                # `precision`.  An error that VANISHES under time-step refinement is discretisation error; one that persists is a
                # defect.  Decision: the same scenario at dt/4 (same evaluation times, its own exact reference on its own rows)
                # must pass its value check for the mismatch at dt to be attributed to discretisation.
                r4 = mps_worker(dict(job, dt=job["dt"] / 4.0, id=job["id"] + 500000))
                if not r4["error"] and r4["margins"].get("values", 9.0) <= 1.0 and r4.get("K", 0) > r.get("K", 0):
                    ctx.coverage["dt_limited"] = ctx.coverage.get("dt_limited", 0) + 1
                    ctx.notes.append(f"scenario {job['id']}: value mismatch at dt={job['dt']} ({r.get('why')}) vanishes at dt/4 (margin {r4['margins'].get('values'):.3g}): discretisation error of the TDVP step")
                    continue
            ctx.violation(key, f"trace of a real emu-mps run rejected by MPSRunTrace at event {v[1]}: {v[2]} (strata {job['strata']}, perm {r['perm']}, {r.get('why')})",
                          {"job": job, "event_index": v[1], "margins": r["margins"], "why": r.get("why"), "perm": r["perm"]})
    ctx.coverage[f"worst_margin_{label}"] = round(worst, 4)


def run(ctx: Ctx) -> None:
    ctx.level = "exploration"
    ctx.assumptions += [
        "reference: exact exp(-i dt H) products on the emitted rows (register order) with dense Rydberg / XY Hamiltonians; XY uses the first (C3) slice of Pulser's interaction tensor (the C6 slice introduced by pulser-core 1.9 is defined in pulser-simulation, which is not installed)",
        "precision budget for values: 5 * steps * 2(N-1) * precision (+1e-6) plus 3*|emu(dt)-emu(dt/2)| capped at 2e-3 (TDVP projection error is dt-dependent, not precision-bounded); variance / second moment additionally 4e-5*||H||^2 because H@H is compressed at the package default precision",
        "strata restricted to dt >= 1 and no evaluation time inside the last ns while the C22 defect is unrepaired",
    ]
    n = ctx.pick(64, 600)
    jobs = make_jobs(ctx, n)
    # committed probe of the known TDVP projection-error finding (so it is reported on every run, whatever the seed draws)
    import json
    import os
    jobs.append(json.load(open(os.path.join(os.path.dirname(os.path.dirname(os.path.abspath(__file__))), "data", "c02_frozen_probe.json"))))
    results = pmap(mps_worker, jobs)
    evaluate(ctx, jobs, results, "mps")
    model(ctx, "tdvp")
    ctx.coverage["rule"] = "one case per scenario = (strata tuple, dt); strata cover Rydberg/XY x atoms x waveform x phase x DMM x SLM x dt class x eval class x reorder x precision"
