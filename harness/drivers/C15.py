"""C15 - sampled bitstrings follow the Born distribution, in register order, with per-bit readout flips.

(1) TLC: Observables.tla part 2 -- the batching loop of MPS.sample (32-shot batches) and the per-shot loop of
    apply_measurement_errors as a state machine: CountConserved / NeverOvershoots / termination for every
    shot number 1..70; OrderLaw (character p reads qudit p, '1' iff the excited level, leakage reads '0') for
    every basis state of 1..4 qubits / qutrits and both index conventions (format(index,'0nb') of emu-sv,
    per-site outcomes of emu-mps); FlipLaw (0->1 only through the false-positive rate, 1->0 only through the
    false-negative rate); GuardLaw (when the channel is applied / refused).  Mutants fp_fn_swapped and
    reverse_sites must be refuted.
(2) Binding A, deterministic: the SAME enumerations on the real code: every basis state (n <= 4, qubits,
    qutrits; MPS, StateVector, DensityMatrix), every shot number 1..70, rates in {0, 1} (where the channel is
    deterministic), the guard table, BitStrings.apply with the NoiseModel's rates, dark-atom padding.
(3) Statistical: random states (2-8 atoms; MPS qubits / qutrits, state vectors, density matrices,
    unnormalised too), up to 20 000 shots, rates in [0,1]: EXACT binomial tests of every outcome bin
    (bins with expected count < 5 pooled) against the Born probabilities pushed through the independent-flip
    channel; per-bit flip rates and pairwise joint flips from basis states.  Family-wise error 1e-9
    (Bonferroni over every test of the run).
"""
from __future__ import annotations

import itertools
import json
import logging
import math
import os
import random
import warnings

import numpy as np

from harness.core import Ctx, MachineryError
from harness.drivers import _mpsops as M
from harness.pool import pmap
from harness.ref import dense, tn
from harness.tlc import run_tlc

FWER = 1e-9


def cfg_sampling(variant: str, max_shots: int = 70) -> str:
    return f"""SPECIFICATION SSpec
CONSTANTS
  MaxShots = {max_shots}
  BatchSize = 32
  MaxAtoms = 4
  Variant = "{variant}"
  LogCells = FALSE
INVARIANT CountConserved
INVARIANT NeverOvershoots
PROPERTY SamplingTerminates
"""


# ------------------------------------------------------------------------------------------ real objects
def make_state(kind: str, vec_or_rho: np.ndarray, n: int, d: int, rng=None, chi_noise: bool = False):
    """Real State object representing the given dense vector / density matrix."""
    import torch

    if kind == "StateVector":
        from emu_sv import StateVector

        return StateVector(torch.tensor(vec_or_rho), gpu=False)
    if kind == "DensityMatrix":
        from emu_sv import DensityMatrix

        return DensityMatrix(torch.tensor(vec_or_rho), gpu=False)
    from emu_mps import MPS

    # exact MPS of a dense vector by successive SVDs (harness side, numpy)
    fs = []
    rest = vec_or_rho.reshape(1, -1)
    for i in range(n - 1):
        m = rest.reshape(rest.shape[0] * d, -1)
        u, s, vh = np.linalg.svd(m, full_matrices=False)
        keep = max(1, int((s > 1e-14 * max(s[0], 1e-300)).sum()))
        fs.append(u[:, :keep].reshape(rest.shape[0], d, keep))
        rest = (s[:keep, None] * vh[:keep])
    fs.append(rest.reshape(rest.shape[0], d, 1))
    return MPS([torch.tensor(np.ascontiguousarray(f)) for f in fs], eigenstates=M.EIG[d], num_gpus_to_use=0)


def wanted_string(levels) -> str:
    return "".join("1" if x == 1 else "0" for x in levels)


def sample(state, shots: int, fp: float = 0.0, fn: float = 0.0):
    return state.sample(num_shots=shots, p_false_pos=fp, p_false_neg=fn)


# ------------------------------------------------------------------------------------------ deterministic part
def deterministic_task(task: dict) -> dict:
    import torch

    torch.set_num_threads(1)
    logging.getLogger("emulators").setLevel(logging.ERROR)
    acc = M.new_acc()
    seed = task["seed"]
    torch.manual_seed(seed)
    random.seed(seed)

    def viol(key, what, rep):
        if len(acc["violations"]) < 40:
            acc["violations"].append({"prop": "C15", "key": key, "what": what, "n": rep.get("n", 0), "params": rep, "path": []})

    part = task["part"]
    if part == "basis":
        kind, d = task["kind"], task["dim"]
        for n in range(2 if kind == "MPS" else 1, task["max_n"] + 1):
            for lv in itertools.product(range(d), repeat=n):
                v = dense.basis_state(lv, d)
                rep = {"part": part, "kind": kind, "dim": d, "n": n, "levels": list(lv)}
                want = wanted_string(lv)
                try:
                    st = make_state(kind, np.outer(v, v.conj()) if kind == "DensityMatrix" else v, n, d)
                    shots = 1 + (sum(lv) * 7 + n) % 70
                    c = sample(st, shots)
                    acc["transitions"] += 1
                    if sum(c.values()) != shots:
                        viol(f"sample:{kind}:total-count", f"{kind}.sample({shots}) returned {sum(c.values())} shots", rep)
                    if set(c) != {want}:
                        viol(f"sample:{kind}:basis-state-order-or-letter", f"{kind} basis state {lv} sampled as {dict(c)}, expected only '{want}' (position p = qudit p, '1' iff level 1)", rep)
                    # deterministic readout channel: rates in {0, 1}
                    for fp, fn in ((1.0, 0.0), (0.0, 1.0), (1.0, 1.0)):
                        if kind == "MPS" and d == 3 and fp > 0:
                            try:
                                sample(st, 3, fp, fn)
                                viol("sample:MPS:qutrit-false-positive-not-refused", "MPS.sample with 3 levels and p_false_pos > 0 returned instead of refusing", rep)
                            except NotImplementedError:
                                pass
                            continue
                        c2 = sample(st, 5, fp, fn)
                        exp = "".join(("1" if fp == 1.0 else "0") if ch == "0" else ("0" if fn == 1.0 else "1") for ch in want)
                        if set(c2) != {exp} or sum(c2.values()) != 5:
                            viol(f"sample:{kind}:readout-flip-direction", f"{kind} basis '{want}' with p_false_pos={fp}, p_false_neg={fn} read as {dict(c2)}, expected only '{exp}'", dict(rep, fp=fp, fn=fn))
                        acc["transitions"] += 1
                except Exception as ex:
                    viol(f"sample:{kind}:raises", f"{kind}.sample raised {type(ex).__name__}: {ex} on basis state {lv}", rep)
    elif part == "counts":
        rng = np.random.default_rng(seed)
        for kind, d in (("MPS", 2), ("MPS", 3), ("StateVector", 2), ("DensityMatrix", 2)):
            n = 3
            v = rng.normal(size=d**n) + 1j * rng.normal(size=d**n)
            v /= np.linalg.norm(v)
            st = make_state(kind, np.outer(v, v.conj()) if kind == "DensityMatrix" else v, n, d)
            for shots in list(range(1, 71)) + [96, 97, 1000]:
                for fp, fn in ((0.0, 0.0), (0.0, 0.3)) + (((0.2, 0.1),) if not (kind == "MPS" and d == 3) else ()):
                    c = sample(st, shots, fp, fn)
                    acc["transitions"] += 1
                    if sum(c.values()) != shots or any(len(s) != n or set(s) - {"0", "1"} for s in c):
                        viol(f"sample:{kind}:total-count", f"{kind}.sample(num_shots={shots}, fp={fp}, fn={fn}) returned {sum(c.values())} shots / malformed strings", {"part": part, "kind": kind, "dim": d, "n": n, "shots": shots})
    elif part == "bitstrings":
        # BitStrings.apply with the NoiseModel's rates, and through fill_results with dark-atom padding
        import pulser
        from emu_mps import MPSConfig
        from emu_mps.mps_backend_impl import create_impl
        from emu_sv import SVConfig
        from pulser.backend import BitStrings

        rng = np.random.default_rng(seed)
        for kind, d in (("MPS", 2), ("StateVector", 2), ("DensityMatrix", 2)):
            for lv in itertools.product(range(d), repeat=3):
                v = dense.basis_state(lv, d)
                st = make_state(kind, np.outer(v, v.conj()) if kind == "DensityMatrix" else v, 3, d)
                for fp, fn in ((0.0, 0.0), (1.0, 0.0), (0.0, 1.0)):
                    with warnings.catch_warnings():
                        warnings.simplefilter("ignore")
                        nm = pulser.NoiseModel(p_false_pos=fp, p_false_neg=fn) if fp or fn else pulser.NoiseModel()
                        ob = BitStrings(evaluation_times=[1.0], num_shots=9)
                        cfg = (MPSConfig if kind == "MPS" else SVConfig)(observables=[ob], noise_model=nm, log_level=logging.ERROR)
                    c = cfg.observables[0].apply(config=cfg, state=st, hamiltonian=None)
                    want = wanted_string(lv)
                    exp = "".join(("1" if fp == 1.0 else "0") if ch == "0" else ("0" if fn == 1.0 else "1") for ch in want)
                    acc["transitions"] += 1
                    if set(c) != {exp} or sum(c.values()) != 9:
                        viol(f"bitstrings:{kind}:noise-model-rates", f"BitStrings on {kind} basis '{want}' with NoiseModel(p_false_pos={fp}, p_false_neg={fn}) gave {dict(c)}, expected only '{exp}'", {"part": part, "kind": kind, "levels": list(lv), "fp": fp, "fn": fn})
        # dark-atom padding: a dark atom reads '0' at ITS register position
        from emu_mps import MPS
        import torch as _t

        for mask in itertools.product([False, True], repeat=4):
            if sum(1 for b in mask if not b) < 2 or not any(mask):
                continue
            good = [i for i, b in enumerate(mask) if not b]
            for lv in itertools.product(range(2), repeat=len(good)):
                data, _ = M.make_sequence_data(rng, 4, 1, 10.0, dim=2, bad=np.array(mask))
                with warnings.catch_warnings():
                    warnings.simplefilter("ignore")
                    cfg = MPSConfig(dt=10.0, observables=[BitStrings(evaluation_times=[0.0], num_shots=6)], optimize_qubit_ordering=False, log_level=logging.ERROR)
                try:
                    impl = create_impl(data, cfg)
                    impl.init_dark_qubits()
                    impl.init_initial_state(None)
                    impl.init_noiseless_hamiltonian()
                    impl.state = make_state("MPS", dense.basis_state(lv, 2) * 1.7, len(good), 2)
                    impl.fill_results()
                    c = impl.results.bitstrings[0]
                    full = ["0"] * 4
                    for g, x in zip(good, lv):
                        full[g] = "1" if x == 1 else "0"
                    acc["transitions"] += 1
                    if set(c) != {"".join(full)} or sum(c.values()) != 6:
                        viol("bitstrings:MPS:dark-atom-position", f"dark mask {mask}, good atoms in {lv}: BitStrings gave {dict(c)}, expected only '{''.join(full)}'", {"part": part, "mask": list(mask), "levels": list(lv)})
                except Exception as ex:
                    viol("bitstrings:MPS:dark-atoms:raises", f"{type(ex).__name__}: {ex}", {"part": part, "mask": list(mask)})
    acc["states"] = 1
    return acc


# ------------------------------------------------------------------------------------------ statistical part
def binom_two_sided(k: int, n: int, p: float) -> float:
    """exact two-sided p-value (doubling the smaller tail, capped at 1) -- valid for every n, p"""
    from scipy.stats import binom

    if p <= 0.0:
        return 1.0 if k == 0 else 0.0
    if p >= 1.0:
        return 1.0 if k == n else 0.0
    lo = binom.cdf(k, n, p)
    hi = binom.sf(k - 1, n, p)
    return float(min(1.0, 2.0 * min(lo, hi)))


def bin_tests(counts: dict, probs: dict, shots: int, label: dict) -> list:
    """One exact binomial test per outcome with expected >= 5; all others pooled into one bin."""
    tests = []
    pooled_p, pooled_k = 0.0, 0
    keys = set(counts) | set(probs)
    chi2 = 0.0
    for s in sorted(keys):
        p = min(max(probs.get(s, 0.0), 0.0), 1.0)
        k = counts.get(s, 0)
        if p * shots >= 5:
            tests.append((binom_two_sided(k, shots, p), dict(label, outcome=s, observed=k, expected=p * shots)))
            chi2 += (k - p * shots) ** 2 / (p * shots)
        else:
            pooled_p += p
            pooled_k += k
    if pooled_p > 0 or pooled_k > 0:
        pooled_p = min(pooled_p, 1.0)
        # probabilities below double rounding are not "impossible": floor them
        tests.append((binom_two_sided(pooled_k, shots, max(pooled_p, 1e-13)), dict(label, outcome="<pooled rare outcomes>", observed=pooled_k, expected=pooled_p * shots)))
    return tests, chi2


def statistical_task(task: dict) -> dict:
    import torch

    torch.set_num_threads(1)
    logging.getLogger("emulators").setLevel(logging.ERROR)
    rng = np.random.default_rng(task["seed"])
    torch.manual_seed(task["seed"] % (2**31))
    random.seed(task["seed"])
    out = {"tests": 0, "worst": [], "scenarios": 0, "raised": [], "chi2": []}

    def push(tests):
        out["tests"] += len(tests)
        out["worst"] = sorted(out["worst"] + tests, key=lambda t: t[0])[:5]

    for it in range(task["count"]):
        kind, d = task["kind"], task["dim"]
        n = int(rng.integers(2, task["max_n"] + 1))
        if kind == "DensityMatrix":
            n = min(n, 6)
        shots = int(rng.choice(task["shots"]))
        mode = str(rng.choice(["born", "born", "readout", "bits"]))
        fp = fn = 0.0
        if mode != "born":
            fp, fn = [float(x) for x in rng.choice([0.0, 0.02, 0.1, 0.25, 0.5, 0.9, 1.0], size=2)]
            if kind == "MPS" and d == 3:
                fp = 0.0
            if fp == 0.0 and fn == 0.0:
                fn = 0.15
        label = {"kind": kind, "dim": d, "n": n, "shots": shots, "mode": mode, "fp": fp, "fn": fn, "seed": task["seed"], "iteration": it}
        try:
            if mode == "bits":
                lv = [int(x) for x in rng.integers(0, d, size=n)]
                v = dense.basis_state(lv, d)
            else:
                v = rng.normal(size=d**n) + 1j * rng.normal(size=d**n)
                v *= np.exp(-rng.uniform(0, 1.5) * rng.random(d**n) * n)  # uneven weights
                if rng.random() < 0.3:
                    v[rng.random(d**n) < 0.5] = 0.0
                if not np.any(v):
                    v[0] = 1.0
                v /= np.linalg.norm(v)
            scale = float(rng.choice([1.0, 1.0, 0.4, 3.0]))  # sampling must not depend on the norm
            if kind == "DensityMatrix":
                w = rng.normal(size=d**n) + 1j * rng.normal(size=d**n)
                w /= np.linalg.norm(w)
                pm = float(rng.uniform(0.3, 1.0)) if mode != "bits" else 1.0
                dens = pm * np.outer(v, v.conj()) + (1 - pm) * np.outer(w, w.conj())
                st = make_state(kind, dens * scale, n, d)
                probs = tn.bit_probs(dens, n, d)
            else:
                st = make_state(kind, v * scale, n, d)
                probs = tn.bit_probs(v, n, d)
            if fp or fn:
                probs = tn.readout_channel(probs, n, fp, fn)
            c = dict(sample(st, shots, fp, fn))
            out["scenarios"] += 1
            if sum(c.values()) != shots:
                out["raised"].append(("sample:total-count", f"{kind}.sample returned {sum(c.values())} of {shots} shots", label))
                continue
            tests, chi2 = bin_tests(c, probs, shots, label)
            push(tests)
            out["chi2"].append((chi2, len(tests)))
            if mode == "bits":
                # per-bit flip rates and pairwise joint flips from a basis state (independence per bit)
                want = wanted_string(lv)
                rates = [fp if ch == "0" else fn for ch in want]
                flips = np.zeros(n)
                joint = np.zeros((n, n))
                for s_, k in c.items():
                    f = np.array([a != b for a, b in zip(s_, want)], dtype=float)
                    flips += k * f
                    joint += k * np.outer(f, f)
                t2 = []
                for p_ in range(n):
                    t2.append((binom_two_sided(int(flips[p_]), shots, rates[p_]), dict(label, test="bit-flip-rate", bit=p_, observed=int(flips[p_]), expected=rates[p_] * shots)))
                    for q_ in range(p_ + 1, n):
                        t2.append((binom_two_sided(int(joint[p_, q_]), shots, rates[p_] * rates[q_]),
                                   dict(label, test="pairwise-joint-flips", bits=[p_, q_], observed=int(joint[p_, q_]), expected=rates[p_] * rates[q_] * shots)))
                push(t2)
        except Exception as ex:
            out["raised"].append(("sample:raises", f"{kind}.sample raised {type(ex).__name__}: {ex}", label))
    return out


def history_task(task: dict) -> dict:
    """TLC-enumerated operation histories (MPSOps.tla, one name) ending in Sample, executed on real entangled
    MPS objects: the sampled distribution must be the Born distribution of the object's dense contraction
    taken just before the call -- whatever centre / gauge the history left behind."""
    import torch

    torch.set_num_threads(1)
    logging.getLogger("emulators").setLevel(logging.ERROR)
    out = {"tests": 0, "worst": [], "scenarios": 0, "raised": [], "chi2": [], "centres": {}}
    with M.SplitSpy() as spy:
        for h in task["histories"]:
            n, params, shots = h["n"], h["params"], task["shots"]
            label = {"kind": "MPS", "dim": params["dim"], "n": n, "shots": shots, "mode": "history", "fp": 0.0, "fn": 0.0,
                     "history": h["path"], "params": params}
            try:
                w = M.World(n, params)
                bad = False
                for act in h["path"]:
                    o = M.real_step(w, dict(zip(("op", "a", "b", "res", "k"), act)), spy)
                    if "raised" in o:
                        bad = True
                        break
                if bad:
                    continue
                st = w.slots[h["slot"]]
                torch.manual_seed(M.step_seed(w, {"op": "Sample", "a": h["slot"], "b": 0, "res": 0, "k": 0}) % (2**31))
                vec = M.mps_vec(st)
                c_before = st.orthogonality_center
                counts = dict(st.sample(num_shots=shots))
                out["centres"][str(c_before)] = out["centres"].get(str(c_before), 0) + 1
                out["scenarios"] += 1
                if sum(counts.values()) != shots:
                    out["raised"].append(("sample:total-count", f"MPS.sample returned {sum(counts.values())} of {shots} shots after {h['path']}", label))
                    continue
                tests, chi2 = bin_tests(counts, tn.bit_probs(vec, n, params["dim"]), shots, label)
                out["tests"] += len(tests)
                out["worst"] = sorted(out["worst"] + tests, key=lambda t: t[0])[:5]
                out["chi2"].append((chi2, len(tests)))
            except Exception as ex:
                out["raised"].append(("sample:raises", f"MPS.sample raised {type(ex).__name__}: {ex} after {h['path']}", label))
    return out


def fill_task(task: dict) -> dict:
    """Observables evaluated in sequence on the SAME state object, as a run does: the real fill_results with
    CorrelationMatrix (which walks the orthogonality centre to the last site) followed by BitStrings."""
    import torch
    from emu_mps import MPS, MPSConfig
    from emu_mps.mps_backend_impl import create_impl
    from pulser.backend import BitStrings, CorrelationMatrix, Occupation

    torch.set_num_threads(1)
    logging.getLogger("emulators").setLevel(logging.ERROR)
    rng = np.random.default_rng(task["seed"])
    torch.manual_seed(task["seed"] % (2**31))
    random.seed(task["seed"])
    out = {"tests": 0, "worst": [], "scenarios": 0, "raised": [], "chi2": []}
    for it in range(task["count"]):
        d = int(rng.choice([2, 2, 3]))
        n = int(rng.integers(2, (task["max_n"] if d == 2 else 5) + 1))
        shots = int(rng.choice(task["shots"]))
        order = str(rng.choice(["corr-then-bits", "occ-corr-bits", "bits-only"]))
        label = {"kind": "MPS", "dim": d, "n": n, "shots": shots, "mode": "fill_results:" + order, "fp": 0.0, "fn": 0.0, "seed": task["seed"], "iteration": it}
        try:
            data, _ = M.make_sequence_data(rng, n, 1, 10.0, dim=d)
            T = [0.0]
            obs = {"corr-then-bits": [CorrelationMatrix(evaluation_times=T), BitStrings(evaluation_times=T, num_shots=shots)],
                   "occ-corr-bits": [Occupation(evaluation_times=T), CorrelationMatrix(evaluation_times=T), BitStrings(evaluation_times=T, num_shots=shots)],
                   "bits-only": [BitStrings(evaluation_times=T, num_shots=shots)]}[order]
            with warnings.catch_warnings():
                warnings.simplefilter("ignore")
                cfg = MPSConfig(dt=10.0, precision=1e-10, observables=obs, optimize_qubit_ordering=False, log_level=logging.ERROR)
            impl = create_impl(data, cfg)
            impl.init_dark_qubits()
            impl.init_initial_state(None)
            impl.init_noiseless_hamiltonian()
            fs = M.rand_factors(rng, n, d, int(rng.integers(2, 7)), 1.0)
            fs[0] = fs[0] * float(rng.choice([1.0, 0.5, 2.0]))
            st = MPS([torch.tensor(f) for f in fs], precision=1e-10, max_bond_dim=1024, eigenstates=M.EIG[d], num_gpus_to_use=0)
            if rng.random() < 0.7:
                st.orthogonalize(int(rng.integers(0, n)))
            vec = M.mps_vec(st)
            impl.state = st
            impl.fill_results()
            counts = dict(impl.results.bitstrings[0])
            out["scenarios"] += 1
            if sum(counts.values()) != shots:
                out["raised"].append(("bitstrings:MPS:total-count", f"BitStrings stored {sum(counts.values())} of {shots} shots", label))
                continue
            tests, chi2 = bin_tests(counts, tn.bit_probs(vec, n, d), shots, label)
            out["tests"] += len(tests)
            out["worst"] = sorted(out["worst"] + tests, key=lambda t: t[0])[:5]
            out["chi2"].append((chi2, len(tests)))
        except Exception as ex:
            out["raised"].append(("bitstrings:MPS:fill_results:raises", f"{type(ex).__name__}: {ex}", label))
    return out


def sample_histories(ctx: Ctx, depth: int, per_state: int) -> list[dict]:
    """Run TLC on MPSOps.tla with one Python name, collect every distinct abstract state in which Sample is
    taken and a shortest action path to it."""
    res = run_tlc("MPSOps", None, workdir=ctx.work, name="mpsops_sample", cfg_text=M.cfg_text(2, 4, 1, depth, log=True), workers=4, timeout=900)
    ctx.add_tlc(res)
    rows = M.parse_log(res["out"], 1)
    if not rows:
        raise MachineryError("TLC printed no transitions of MPSOps")
    rng = np.random.default_rng([ctx.seed, 151])
    hist = []
    for n in sorted({r["n"] for r in rows}):
        rn = [r for r in rows if r["n"] == n]
        succ: dict = {}
        for r in rn:
            succ.setdefault(r["pre"], {})[(r["op"], r["a"], r["b"], r["res"], r["k"])] = r["post"]
        init = tuple([0] * 6)
        path = {init: []}
        frontier = [init]
        while frontier:
            nxt = []
            for st in frontier:
                for act, post in sorted(succ.get(st, {}).items()):
                    if post not in path:
                        path[post] = path[st] + [list(act)]
                        nxt.append(post)
            frontier = nxt
        for st, acts in sorted(succ.items()):
            if ("Sample", 1, 0, 0, 0) in acts and st in path and path[st]:
                for _ in range(per_state):
                    prm = {"seed": int(rng.integers(0, 2**31)), "dim": int(rng.choice([2, 2, 3])), "chi": 4, "decay": 1.0, "precision": 1e-10, "cap": 64}
                    hist.append({"n": n, "path": path[st], "slot": 1, "params": prm, "model_centre": st[1]})
    if not hist:
        raise MachineryError("no history ending in Sample found in the MPSOps graph")
    return hist


def _dispatch(t):
    if t["family"] == "det":
        return deterministic_task(t)
    if t["family"] == "hist":
        return history_task(t)
    if t["family"] == "fill":
        return fill_task(t)
    return statistical_task(t)


def run(ctx: Ctx) -> None:
    ctx.level = "exploration"
    ctx.assumptions += [
        "Observables.tla part 2 transcribes the batching loop of MPS.sample, apply_measurement_errors / readout_with_error, index_to_bitstring and the "
        "guards deciding whether the readout channel runs; the same enumerations (basis states, shot numbers, guard table) are executed on the real code",
        "statistical acceptance: exact binomial tests (scipy.stats.binom) of outcome bins, per-bit flips and pairwise joint flips; Bonferroni over every test of the "
        "run at a family-wise error of 1e-9 (an asymptotic chi-square is NOT used for the verdict: its tail is not trustworthy at 1e-13; it is reported descriptively)",
        "reference distribution: |amplitudes|^2 / diag(rho) of the normalised state in numpy, '1' iff level 1, pushed through independent per-bit flips (harness/ref/tn.py)",
        "register order at the State.sample / BitStrings level with the identity qubit order (re-ordering of results is C03's subject); seeds: torch.manual_seed, random.seed, numpy from VERIF_SEED",
    ]
    res = run_tlc("Observables", None, workdir=ctx.work, name="sampling", cfg_text=cfg_sampling("code"), workers=2, coverage=True, timeout=900)
    ctx.add_tlc(res)
    if not res["ok"]:
        ctx.notes.append(f"TLC: the sampling model violates {res['violated']}")
    dead = [a for a in (res.get("coverage_zero") or []) if a in ("Batch", "LoopExit", "MoveOne", "Finish")]
    if dead:
        raise MachineryError(f"vacuity: sampling actions never taken: {dead}")
    refuted = {}
    for variant in ("fp_fn_swapped", "reverse_sites"):
        r = run_tlc("Observables", None, workdir=ctx.work, name=f"sampling_{variant}", cfg_text=cfg_sampling(variant, 3), workers=1, expect_fail=True, timeout=600)
        refuted[variant] = "Assumption" in r["out"] and "is false" in r["out"]
        if not refuted[variant]:
            raise MachineryError(f"specification self-test: mutant {variant} is not refuted by OrderLaw / FlipLaw")
    ctx.coverage["spec_mutants_refuted"] = refuted
    # ---- binding A
    rng = np.random.default_rng([ctx.seed, 15])
    tasks = []
    for kind, d in (("MPS", 2), ("MPS", 3), ("StateVector", 2), ("DensityMatrix", 2)):
        tasks.append({"family": "det", "part": "basis", "kind": kind, "dim": d, "max_n": 4 if d == 2 or not ctx.quick else 3, "seed": int(rng.integers(0, 2**31))})
    tasks.append({"family": "det", "part": "counts", "seed": int(rng.integers(0, 2**31))})
    tasks.append({"family": "det", "part": "bitstrings", "seed": int(rng.integers(0, 2**31))})
    shots = ctx.pick([200, 2000, 5000], [100, 2000, 20000, 20000])
    reps = ctx.pick(1, 4)
    for kind, d in (("MPS", 2), ("MPS", 3), ("StateVector", 2), ("DensityMatrix", 2)):
        for _ in range(reps):
            tasks.append({"family": "stat", "kind": kind, "dim": d, "count": ctx.pick(10, 40) if kind == "MPS" else ctx.pick(25, 120),
                          "max_n": ctx.pick(6, 8), "shots": shots, "seed": int(rng.integers(0, 2**31))})
    hist = sample_histories(ctx, ctx.pick(3, 4), ctx.pick(1, 2))
    procs = int(os.environ.get("VERIF_PROCS", "16"))
    for i in range(procs):
        if hist[i::procs]:
            tasks.append({"family": "hist", "histories": hist[i::procs], "shots": ctx.pick(3000, 10000)})
    for _ in range(ctx.pick(4, 12)):
        tasks.append({"family": "fill", "count": ctx.pick(6, 20), "max_n": ctx.pick(6, 8), "shots": ctx.pick([3000], [5000, 20000]), "seed": int(rng.integers(0, 2**31))})
    ctx.coverage["histories_before_sampling"] = {"histories": len(hist), "model_centres_at_sample": sorted({h["model_centre"] for h in hist}),
                                                 "distinct_paths": len({json.dumps(h["path"]) for h in hist})}
    outs = pmap(_dispatch, tasks)
    det = M.merge([o for t, o in zip(tasks, outs) if t["family"] == "det"])
    for v in det["violations"]:
        ctx.violation(v["key"], v["what"], {"scenario": v["params"], "how": "harness.drivers.C15.deterministic_task"})
    for t, o in zip(tasks, outs):
        if t["family"] == "det":
            ctx.case(("det", t["part"], t.get("kind"), t.get("dim")), sample={"part": t["part"], "kind": t.get("kind"), "dim": t.get("dim"), "real_calls": o["transitions"]})
    ctx.evaluations += det["transitions"]
    stat = [o for t, o in zip(tasks, outs) if t["family"] in ("stat", "hist", "fill")]
    cen = {}
    for o in stat:
        for k, v in o.get("centres", {}).items():
            cen[k] = cen.get(k, 0) + v
    ctx.coverage["histories_before_sampling"]["real_declared_centre_before_sample"] = cen
    ntests = sum(o["tests"] for o in stat)
    alpha = FWER / max(ntests, 1)
    worst = sorted([w for o in stat for w in o["worst"]], key=lambda t: t[0])
    for o in stat:
        for key, what, label in o["raised"]:
            ctx.violation(key, what, {"scenario": label})
    for p, label in worst:
        if p < alpha:
            test = label.get("test", "outcome-frequency")
            kind = label["kind"]
            stage = "after-operation-history:" if label["mode"] == "history" else "in-fill_results:" if label["mode"].startswith("fill_results") else "readout-" if label["mode"] != "born" else ""
            key = f"sample:{kind}:{stage}{test}:differs-from-born-distribution"
            ctx.violation(key, f"{kind} (dim {label['dim']}, {label['n']} atoms, {label['shots']} shots, fp={label['fp']}, fn={label['fn']}): {test} observed {label['observed']} "
                          f"where {label['expected']:.1f} are expected; exact binomial p = {p:.2e} < {alpha:.2e} (family-wise 1e-9 over {ntests} tests)", {"scenario": label})
    for t, o in zip(tasks, outs):
        if t["family"] == "stat":
            ctx.case(("stat", t["kind"], t["dim"], t["seed"]), sample={"kind": t["kind"], "dim": t["dim"], "scenarios": o["scenarios"], "tests": o["tests"]})
            ctx.evaluations += o["scenarios"]
        elif t["family"] in ("hist", "fill"):
            ctx.case((t["family"], t.get("seed"), len(t.get("histories", []))), sample={"family": t["family"], "scenarios": o["scenarios"], "tests": o["tests"]} if o["scenarios"] else None)
            ctx.evaluations += o["scenarios"]
            ctx.traces_validated += o["scenarios"] if t["family"] == "hist" else 0
    chi = [c for o in stat for c in o["chi2"]]
    ctx.coverage["statistical"] = {"scenarios": sum(o["scenarios"] for o in stat), "exact_binomial_tests": ntests, "alpha_per_test": alpha,
                                   "smallest_p_value": worst[0][0] if worst else None,
                                   "smallest_p_over_alpha": (worst[0][0] / alpha) if worst else None,
                                   "chi2_over_dof_mean (descriptive)": float(np.mean([c / max(k - 1, 1) for c, k in chi])) if chi else None}
    ctx.coverage["deterministic_real_calls"] = det["transitions"]
    ctx.traces_validated += det["transitions"]
    ctx.coverage["rule"] = ("deterministic: one case per (part, representation, dimension) enumeration (all basis states n <= 4, all shot numbers 1..70, guard table, dark masks of 4 atoms); "
                            "statistical: one case per seeded batch of random states; every outcome bin / bit / bit pair is one exact test")
    ctx.coverage["exhaustive"] = False
