"""C15 - sampled bitstrings follow the Born distribution, in register order, with per-bit readout flips.

(1) TLC: Observables.tla part 2 -- the batching loop of MPS.sample (32-shot batches) and the per-shot loop of
    apply_measurement_errors as a state machine: CountConserved / NeverOvershoots / termination for every
    shot number 1..70; OrderLaw (character p reads qudit p, '1' iff the excited level, leakage reads '0') for
    every basis state of 1..4 qubits / qutrits and both index conventions (format(index,'0nb') of emu-sv,
    per-site outcomes of emu-mps); FlipLaw (0->1 only through the false-positive rate, 1->0 only through the
    false-negative rate); GuardLaw (when the channel is applied / refused).  Mutants fp_fn_swapped and
    reverse_sites must be refuted.
(2) Binding A, deterministic: the SAME enumerations on the real code: every basis state (n <= 4, qubits,
    qutrits; MPS, StateVector, DensityMatrix), every shot number 1..70, rates in {0, 1} (where the channel is
    deterministic), the guard table, BitStrings.apply with the NoiseModel's rates, dark-atom padding.
(3) Statistical: random states (2-8 atoms; MPS qubits / qutrits, state vectors, density matrices,
    unnormalised too), up to 20 000 shots, rates in [0,1]: EXACT binomial tests of every outcome bin
    (bins with expected count < 5 pooled) against the Born probabilities pushed through the independent-flip
    channel; per-bit flip rates and pairwise joint flips from basis states.  Family-wise error 1e-9
    (Bonferroni over every test of the run).
"""
from __future__ import annotations

import itertools
import logging
import math
import os
import random
import warnings

import numpy as np

from harness.core import Ctx, MachineryError
from harness.drivers import _mpsops as M
from harness.pool import pmap
from harness.ref import dense, tn
from harness.tlc import run_tlc

FWER = 1e-9


def cfg_sampling(variant: str, max_shots: int = 70) -> str:
    return f"""SPECIFICATION SSpec
CONSTANTS
  MaxShots = {max_shots}
  BatchSize = 32
  MaxAtoms = 4
  Variant = "{variant}"
  LogCells = FALSE
INVARIANT CountConserved
INVARIANT NeverOvershoots
PROPERTY SamplingTerminates
"""


# ------------------------------------------------------------------------------------------ real objects
def make_state(kind: str, vec_or_rho: np.ndarray, n: int, d: int, rng=None, chi_noise: bool = False):
    """Real State object representing the given dense vector / density matrix."""
    import torch

    if kind == "StateVector":
        from emu_sv import StateVector

        return StateVector(torch.tensor(vec_or_rho), gpu=False)
    if kind == "DensityMatrix":
        from emu_sv import DensityMatrix

        return DensityMatrix(torch.tensor(vec_or_rho), gpu=False)
    from emu_mps import MPS

    # exact MPS of a dense vector by successive SVDs (harness side, numpy)
    fs = []
    rest = vec_or_rho.reshape(1, -1)
    for i in range(n - 1):
        m = rest.reshape(rest.shape[0] * d, -1)
        u, s, vh = np.linalg.svd(m, full_matrices=False)
        keep = max(1, int((s > 1e-14 * max(s[0], 1e-300)).sum()))
        fs.append(u[:, :keep].reshape(rest.shape[0], d, keep))
        rest = (s[:keep, None] * vh[:keep])
    fs.append(rest.reshape(rest.shape[0], d, 1))
    return MPS([torch.tensor(np.ascontiguousarray(f)) for f in fs], eigenstates=M.EIG[d], num_gpus_to_use=0)


def wanted_string(levels) -> str:
    return "".join("1" if x == 1 else "0" for x in levels)


def sample(state, shots: int, fp: float = 0.0, fn: float = 0.0):
    return state.sample(num_shots=shots, p_false_pos=fp, p_false_neg=fn)


# ------------------------------------------------------------------------------------------ deterministic part
def deterministic_task(task: dict) -> dict:
    import torch

    torch.set_num_threads(1)
    logging.getLogger("emulators").setLevel(logging.ERROR)
    acc = M.new_acc()
    seed = task["seed"]
    torch.manual_seed(seed)
    random.seed(seed)

    def viol(key, what, rep):
        if len(acc["violations"]) < 40:
            acc["violations"].append({"prop": "C15", "key": key, "what": what, "n": rep.get("n", 0), "params": rep, "path": []})

    part = task["part"]
    if part == "basis":
        kind, d = task["kind"], task["dim"]
        for n in range(2 if kind == "MPS" else 1, task["max_n"] + 1):
            for lv in itertools.product(range(d), repeat=n):
                v = dense.basis_state(lv, d)
                rep = {"part": part, "kind": kind, "dim": d, "n": n, "levels": list(lv)}
                want = wanted_string(lv)
                try:
                    st = make_state(kind, np.outer(v, v.conj()) if kind == "DensityMatrix" else v, n, d)
                    shots = 1 + (sum(lv) * 7 + n) % 70
                    c = sample(st, shots)
                    acc["transitions"] += 1
                    if sum(c.values()) != shots:
                        viol(f"sample:{kind}:total-count", f"{kind}.sample({shots}) returned {sum(c.values())} shots", rep)
                    if set(c) != {want}:
                        viol(f"sample:{kind}:basis-state-order-or-letter", f"{kind} basis state {lv} sampled as {dict(c)}, expected only '{want}' (position p = qudit p, '1' iff level 1)", rep)
                    # deterministic readout channel: rates in {0, 1}
                    for fp, fn in ((1.0, 0.0), (0.0, 1.0), (1.0, 1.0)):
                        if kind == "MPS" and d == 3 and fp > 0:
                            try:
                                sample(st, 3, fp, fn)
                                viol("sample:MPS:qutrit-false-positive-not-refused", "MPS.sample with 3 levels and p_false_pos > 0 returned instead of refusing", rep)
                            except NotImplementedError:
                                pass
                            continue
                        c2 = sample(st, 5, fp, fn)
                        exp = "".join(("1" if fp == 1.0 else "0") if ch == "0" else ("0" if fn == 1.0 else "1") for ch in want)
                        if set(c2) != {exp} or sum(c2.values()) != 5:
                            viol(f"sample:{kind}:readout-flip-direction", f"{kind} basis '{want}' with p_false_pos={fp}, p_false_neg={fn} read as {dict(c2)}, expected only '{exp}'", dict(rep, fp=fp, fn=fn))
                        acc["transitions"] += 1
                except Exception as ex:
                    viol(f"sample:{kind}:raises", f"{kind}.sample raised {type(ex).__name__}: {ex} on basis state {lv}", rep)
    elif part == "counts":
        rng = np.random.default_rng(seed)
        for kind, d in (("MPS", 2), ("MPS", 3), ("StateVector", 2), ("DensityMatrix", 2)):
            n = 3
            v = rng.normal(size=d**n) + 1j * rng.normal(size=d**n)
            v /= np.linalg.norm(v)
            st = make_state(kind, np.outer(v, v.conj()) if kind == "DensityMatrix" else v, n, d)
            for shots in list(range(1, 71)) + [96, 97, 1000]:
                for fp, fn in ((0.0, 0.0), (0.0, 0.3)) + (((0.2, 0.1),) if not (kind == "MPS" and d == 3) else ()):
                    c = sample(st, shots, fp, fn)
                    acc["transitions"] += 1
                    if sum(c.values()) != shots or any(len(s) != n or set(s) - {"0", "1"} for s in c):
                        viol(f"sample:{kind}:total-count", f"{kind}.sample(num_shots={shots}, fp={fp}, fn={fn}) returned {sum(c.values())} shots / malformed strings", {"part": part, "kind": kind, "dim": d, "n": n, "shots": shots})
    elif part == "bitstrings":
        # BitStrings.apply with the NoiseModel's rates, and through fill_results with dark-atom padding
        import pulser
        from emu_mps import MPSConfig
        from emu_mps.mps_backend_impl import create_impl
        from emu_sv import SVConfig
        from pulser.backend import BitStrings

        rng = np.random.default_rng(seed)
        for kind, d in (("MPS", 2), ("StateVector", 2), ("DensityMatrix", 2)):
            for lv in itertools.product(range(d), repeat=3):
                v = dense.basis_state(lv, d)
                st = make_state(kind, np.outer(v, v.conj()) if kind == "DensityMatrix" else v, 3, d)
                for fp, fn in ((0.0, 0.0), (1.0, 0.0), (0.0, 1.0)):
                    with warnings.catch_warnings():
                        warnings.simplefilter("ignore")
                        nm = pulser.NoiseModel(p_false_pos=fp, p_false_neg=fn) if fp or fn else pulser.NoiseModel()
                        ob = BitStrings(evaluation_times=[1.0], num_shots=9)
                        cfg = (MPSConfig if kind == "MPS" else SVConfig)(observables=[ob], noise_model=nm, log_level=logging.ERROR)
                    c = cfg.observables[0].apply(config=cfg, state=st, hamiltonian=None)
                    want = wanted_string(lv)
                    exp = "".join(("1" if fp == 1.0 else "0") if ch == "0" else ("0" if fn == 1.0 else "1") for ch in want)
                    acc["transitions"] += 1
                    if set(c) != {exp} or sum(c.values()) != 9:
                        viol(f"bitstrings:{kind}:noise-model-rates", f"BitStrings on {kind} basis '{want}' with NoiseModel(p_false_pos={fp}, p_false_neg={fn}) gave {dict(c)}, expected only '{exp}'", {"part": part, "kind": kind, "levels": list(lv), "fp": fp, "fn": fn})
        # dark-atom padding: a dark atom reads '0' at ITS register position
        from emu_mps import MPS
        import torch as _t

        for mask in itertools.product([False, True], repeat=4):
            if sum(1 for b in mask if not b) < 2 or not any(mask):
                continue
            good = [i for i, b in enumerate(mask) if not b]
            for lv in itertools.product(range(2), repeat=len(good)):
                data, _ = M.make_sequence_data(rng, 4, 1, 10.0, dim=2, bad=np.array(mask))
                with warnings.catch_warnings():
                    warnings.simplefilter("ignore")
                    cfg = MPSConfig(dt=10.0, observables=[BitStrings(evaluation_times=[0.0], num_shots=6)], optimize_qubit_ordering=False, log_level=logging.ERROR)
                try:
                    impl = create_impl(data, cfg)
                    impl.init_dark_qubits()
                    impl.init_initial_state(None)
                    impl.init_noiseless_hamiltonian()
                    impl.state = make_state("MPS", dense.basis_state(lv, 2) * 1.7, len(good), 2)
                    impl.fill_results()
                    c = impl.results.bitstrings[0]
                    full = ["0"] * 4
                    for g, x in zip(good, lv):
                        full[g] = "1" if x == 1 else "0"
                    acc["transitions"] += 1
                    if set(c) != {"".join(full)} or sum(c.values()) != 6:
                        viol("bitstrings:MPS:dark-atom-position", f"dark mask {mask}, good atoms in {lv}: BitStrings gave {dict(c)}, expected only '{''.join(full)}'", {"part": part, "mask": list(mask), "levels": list(lv)})
                except Exception as ex:
                    viol("bitstrings:MPS:dark-atoms:raises", f"{type(ex).__name__}: {ex}", {"part": part, "mask": list(mask)})
    acc["states"] = 1
    return acc


# ------------------------------------------------------------------------------------------ statistical part
def binom_two_sided(k: int, n: int, p: float) -> float:
    """exact two-sided p-value (doubling the smaller tail, capped at 1) -- valid for every n, p"""
    from scipy.stats import binom

    if p <= 0.0:
        return 1.0 if k == 0 else 0.0
    if p >= 1.0:
        return 1.0 if k == n else 0.0
    lo = binom.cdf(k, n, p)
    hi = binom.sf(k - 1, n, p)
    return float(min(1.0, 2.0 * min(lo, hi)))


def bin_tests(counts: dict, probs: dict, shots: int, label: dict) -> list:
    """One exact binomial test per outcome with expected >= 5; all others pooled into one bin."""
    tests = []
    pooled_p, pooled_k = 0.0, 0
    keys = set(counts) | set(probs)
    chi2 = 0.0
    for s in sorted(keys):
        p = min(max(probs.get(s, 0.0), 0.0), 1.0)
        k = counts.get(s, 0)
        if p * shots >= 5:
            tests.append((binom_two_sided(k, shots, p), dict(label, outcome=s, observed=k, expected=p * shots)))
            chi2 += (k - p * shots) ** 2 / (p * shots)
        else:
            pooled_p += p
            pooled_k += k
    if pooled_p > 0 or pooled_k > 0:
        pooled_p = min(pooled_p, 1.0)
        # probabilities below double rounding are not "impossible": floor them
        tests.append((binom_two_sided(pooled_k, shots, max(pooled_p, 1e-13)), dict(label, outcome="<pooled rare outcomes>", observed=pooled_k, expected=pooled_p * shots)))
    return tests, chi2


def statistical_task(task: dict) -> dict:
    import torch

    torch.set_num_threads(1)
    logging.getLogger("emulators").setLevel(logging.ERROR)
    rng = np.random.default_rng(task["seed"])
    torch.manual_seed(task["seed"] % (2**31))
    random.seed(task["seed"])
    out = {"tests": 0, "worst": [], "scenarios": 0, "raised": [], "chi2": []}

    def push(tests):
        out["tests"] += len(tests)
        out["worst"] = sorted(out["worst"] + tests, key=lambda t: t[0])[:5]

    for it in range(task["count"]):
        kind, d = task["kind"], task["dim"]
        n = int(rng.integers(2, task["max_n"] + 1))
        if kind == "DensityMatrix":
            n = min(n, 6)
        shots = int(rng.choice(task["shots"]))
        mode = str(rng.choice(["born", "born", "readout", "bits"]))
        fp = fn = 0.0
        if mode != "born":
            fp, fn = [float(x) for x in rng.choice([0.0, 0.02, 0.1, 0.25, 0.5, 0.9, 1.0], size=2)]
            if kind == "MPS" and d == 3:
                fp = 0.0
            if fp == 0.0 and fn == 0.0:
                fn = 0.15
        label = {"kind": kind, "dim": d, "n": n, "shots": shots, "mode": mode, "fp": fp, "fn": fn, "seed": task["seed"], "iteration": it}
        try:
            if mode == "bits":
                lv = [int(x) for x in rng.integers(0, d, size=n)]
                v = dense.basis_state(lv, d)
            else:
                v = rng.normal(size=d**n) + 1j * rng.normal(size=d**n)
                v *= np.exp(-rng.uniform(0, 1.5) * rng.random(d**n) * n)  # uneven weights
                if rng.random() < 0.3:
                    v[rng.random(d**n) < 0.5] = 0.0
                if not np.any(v):
                    v[0] = 1.0
                v /= np.linalg.norm(v)
            scale = float(rng.choice([1.0, 1.0, 0.4, 3.0]))  # sampling must not depend on the norm
            if kind == "DensityMatrix":
                w = rng.normal(size=d**n) + 1j * rng.normal(size=d**n)
                w /= np.linalg.norm(w)
                pm = float(rng.uniform(0.3, 1.0)) if mode != "bits" else 1.0
                dens = pm * np.outer(v, v.conj()) + (1 - pm) * np.outer(w, w.conj())
                st = make_state(kind, dens * scale, n, d)
                probs = tn.bit_probs(dens, n, d)
            else:
                st = make_state(kind, v * scale, n, d)
                probs = tn.bit_probs(v, n, d)
            if fp or fn:
                probs = tn.readout_channel(probs, n, fp, fn)
            c = dict(sample(st, shots, fp, fn))
            out["scenarios"] += 1
            if sum(c.values()) != shots:
                out["raised"].append(("sample:total-count", f"{kind}.sample returned {sum(c.values())} of {shots} shots", label))
                continue
            tests, chi2 = bin_tests(c, probs, shots, label)
            push(tests)
            out["chi2"].append((chi2, len(tests)))
            if mode == "bits":
                # per-bit flip rates and pairwise joint flips from a basis state (independence per bit)
                want = wanted_string(lv)
                rates = [fp if ch == "0" else fn for ch in want]
                flips = np.zeros(n)
                joint = np.zeros((n, n))
                for s_, k in c.items():
                    f = np.array([a != b for a, b in zip(s_, want)], dtype=float)
                    flips += k * f
                    joint += k * np.outer(f, f)
                t2 = []
                for p_ in range(n):
                    t2.append((binom_two_sided(int(flips[p_]), shots, rates[p_]), dict(label, test="bit-flip-rate", bit=p_, observed=int(flips[p_]), expected=rates[p_] * shots)))
                    for q_ in range(p_ + 1, n):
                        t2.append((binom_two_sided(int(joint[p_, q_]), shots, rates[p_] * rates[q_]),
                                   dict(label, test="pairwise-joint-flips", bits=[p_, q_], observed=int(joint[p_, q_]), expected=rates[p_] * rates[q_] * shots)))
                push(t2)
        except Exception as ex:
            out["raised"].append(("sample:raises", f"{kind}.sample raised {type(ex).__name__}: {ex}", label))
    return out


def _dispatch(t):
    return deterministic_task(t) if t["family"] == "det" else statistical_task(t)


def run(ctx: Ctx) -> None:
    ctx.level = "exploration"
    ctx.assumptions += [
        "Observables.tla part 2 transcribes the batching loop of MPS.sample, apply_measurement_errors / readout_with_error, index_to_bitstring and the "
        "guards deciding whether the readout channel runs; the same enumerations (basis states, shot numbers, guard table) are executed on the real code",
        "statistical acceptance: exact binomial tests (scipy.stats.binom) of outcome bins, per-bit flips and pairwise joint flips; Bonferroni over every test of the "
        "run at a family-wise error of 1e-9 (an asymptotic chi-square is NOT used for the verdict: its tail is not trustworthy at 1e-13; it is reported descriptively)",
        "reference distribution: |amplitudes|^2 / diag(rho) of the normalised state in numpy, '1' iff level 1, pushed through independent per-bit flips (harness/ref/tn.py)",
        "register order at the State.sample / BitStrings level with the identity qubit order (re-ordering of results is C03's subject); seeds: torch.manual_seed, random.seed, numpy from VERIF_SEED",
    ]
    res = run_tlc("Observables", None, workdir=ctx.work, name="sampling", cfg_text=cfg_sampling("code"), workers=2, coverage=True, timeout=900)
    ctx.add_tlc(res)
    if not res["ok"]:
        ctx.notes.append(f"TLC: the sampling model violates {res['violated']}")
    dead = [a for a in (res.get("coverage_zero") or []) if a in ("Batch", "LoopExit", "MoveOne", "Finish")]
    if dead:
        raise MachineryError(f"vacuity: sampling actions never taken: {dead}")
    refuted = {}
    for variant in ("fp_fn_swapped", "reverse_sites"):
        r = run_tlc("Observables", None, workdir=ctx.work, name=f"sampling_{variant}", cfg_text=cfg_sampling(variant, 3), workers=1, expect_fail=True, timeout=600)
        refuted[variant] = "Assumption" in r["out"] and "is false" in r["out"]
        if not refuted[variant]:
            raise MachineryError(f"specification self-test: mutant {variant} is not refuted by OrderLaw / FlipLaw")
    ctx.coverage["spec_mutants_refuted"] = refuted
    # ---- binding A
    rng = np.random.default_rng([ctx.seed, 15])
    tasks = []
    for kind, d in (("MPS", 2), ("MPS", 3), ("StateVector", 2), ("DensityMatrix", 2)):
        tasks.append({"family": "det", "part": "basis", "kind": kind, "dim": d, "max_n": 4 if d == 2 or not ctx.quick else 3, "seed": int(rng.integers(0, 2**31))})
    tasks.append({"family": "det", "part": "counts", "seed": int(rng.integers(0, 2**31))})
    tasks.append({"family": "det", "part": "bitstrings", "seed": int(rng.integers(0, 2**31))})
    shots = ctx.pick([200, 2000, 5000], [100, 2000, 20000, 20000])
    reps = ctx.pick(1, 4)
    for kind, d in (("MPS", 2), ("MPS", 3), ("StateVector", 2), ("DensityMatrix", 2)):
        for _ in range(reps):
            tasks.append({"family": "stat", "kind": kind, "dim": d, "count": ctx.pick(10, 40) if kind == "MPS" else ctx.pick(25, 120),
                          "max_n": ctx.pick(6, 8), "shots": shots, "seed": int(rng.integers(0, 2**31))})
    outs = pmap(_dispatch, tasks)
    det = M.merge([o for t, o in zip(tasks, outs) if t["family"] == "det"])
    for v in det["violations"]:
        ctx.violation(v["key"], v["what"], {"scenario": v["params"], "how": "harness.drivers.C15.deterministic_task"})
    for t, o in zip(tasks, outs):
        if t["family"] == "det":
            ctx.case(("det", t["part"], t.get("kind"), t.get("dim")), sample={"part": t["part"], "kind": t.get("kind"), "dim": t.get("dim"), "real_calls": o["transitions"]})
    ctx.evaluations += det["transitions"]
    stat = [o for t, o in zip(tasks, outs) if t["family"] == "stat"]
    ntests = sum(o["tests"] for o in stat)
    alpha = FWER / max(ntests, 1)
    worst = sorted([w for o in stat for w in o["worst"]], key=lambda t: t[0])
    for o in stat:
        for key, what, label in o["raised"]:
            ctx.violation(key, what, {"scenario": label})
    for p, label in worst:
        if p < alpha:
            test = label.get("test", "outcome-frequency")
            kind = label["kind"]
            key = f"sample:{kind}:{'readout-' if label['mode'] != 'born' else ''}{test}:differs-from-born-distribution"
            ctx.violation(key, f"{kind} (dim {label['dim']}, {label['n']} atoms, {label['shots']} shots, fp={label['fp']}, fn={label['fn']}): {test} observed {label['observed']} "
                          f"where {label['expected']:.1f} are expected; exact binomial p = {p:.2e} < {alpha:.2e} (family-wise 1e-9 over {ntests} tests)", {"scenario": label})
    for t, o in zip(tasks, outs):
        if t["family"] == "stat":
            ctx.case(("stat", t["kind"], t["dim"], t["seed"]), sample={"kind": t["kind"], "dim": t["dim"], "scenarios": o["scenarios"], "tests": o["tests"]})
            ctx.evaluations += o["scenarios"]
    chi = [c for o in stat for c in o["chi2"]]
    ctx.coverage["statistical"] = {"scenarios": sum(o["scenarios"] for o in stat), "exact_binomial_tests": ntests, "alpha_per_test": alpha,
                                   "smallest_p_value": worst[0][0] if worst else None,
                                   "smallest_p_over_alpha": (worst[0][0] / alpha) if worst else None,
                                   "chi2_over_dof_mean (descriptive)": float(np.mean([c / max(k - 1, 1) for c, k in chi])) if chi else None}
    ctx.coverage["deterministic_real_calls"] = det["transitions"]
    ctx.traces_validated += det["transitions"]
    ctx.coverage["rule"] = ("deterministic: one case per (part, representation, dimension) enumeration (all basis states n <= 4, all shot numbers 1..70, guard table, dark masks of 4 atoms); "
                            "statistical: one case per seeded batch of random states; every outcome bin / bit / bit pair is one exact test")
    ctx.coverage["exhaustive"] = False
