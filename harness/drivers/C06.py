"""C06 - emu-sv's RydbergHamiltonian / RydbergLindbladian apply exactly the operators they represent.

(1) TLC: SVOperator.tla.  Mechanism = the view()/index_add_ arithmetic of RydbergHamiltonian
    (_create_diagonal, real fast path, complex path, path selection phis.any()) and of RydbergLindbladian
    (local terms, left / right local products on the flattened density matrix, h_eff, __matmul__).
    Requirement = entry map of H on bit strings / i*Lindblad generator on the real basis of Hermitian
    matrices.  TLC checks mechanism |= requirement (HamOK, LindOK), fast path = complex path at phi = 0,
    Hermiticity of H, trace and Hermiticity preservation, over unit parameter assignments.
(2) Binding A: every probe TLC enumerates (parameters, basis vector / Hermitian basis matrix) is replayed
    into the REAL classes and compared entry by entry with the spec's values; the Lindbladian also
    through the batched (GPU) branch, forced on CPU memory by a torch.Tensor subclass whose is_cpu is False.
(3) Random dense comparison N = 1..8 against harness/ref/dense.py (phases zero / mixed / non-zero,
    symmetric interactions of both signs, 0-6 random complex 2x2 jump operators, complex vectors,
    Hermitian matrices), CPU and batched branch; matmul_2x2_with_batched against `@`.
"""
from __future__ import annotations

import json
import math
from concurrent.futures import ThreadPoolExecutor
from pathlib import Path

import numpy as np

from harness.core import Ctx, MachineryError
from harness.pool import pmap
from harness.ref import dense
from harness.tlc import printed_tuples, run_tlc

INV_HAM = ["HamOK", "ReqHermitian", "PathsAgree"]
INV_LIND = ["LindOK", "TracePreserved", "HermPreserved"]


def cfg_text(nq: int, sup: int, phased: int, jumps: str, ham: bool, lind: bool, log: bool) -> str:
    t = f"""SPECIFICATION Spec
CONSTANTS
  NQ = {nq}
  MaxSupport = {sup}
  MaxPhased = {phased}
  JumpLists <- {jumps}
  DoHam = {"TRUE" if ham else "FALSE"}
  DoLind = {"TRUE" if lind else "FALSE"}
"""
    for i in (INV_HAM if ham else []) + (INV_LIND if lind else []):
        t += f"INVARIANT {i}\n"
    if log:
        t += "ACTION_CONSTRAINT LogProbe\n"
    return t


# ------------------------------------------------------------------------------------------- real objects
def _fake_gpu_cls():
    import torch

    class NotCpu(torch.Tensor):
        """CPU memory, but reports is_cpu = False: drives RydbergLindbladian into its batched branch."""

        @property
        def is_cpu(self):  # type: ignore[override]
            return False

    return NotCpu


def make_ham(om2, de, ph, U, dtype="complex"):
    import torch
    from emu_sv.hamiltonian import RydbergHamiltonian

    dt = torch.complex128 if dtype == "complex" else torch.float64
    return RydbergHamiltonian(
        omegas=torch.tensor(om2, dtype=dt), deltas=torch.tensor(de, dtype=dt), phis=torch.tensor(ph, dtype=dt),
        interaction_matrix=torch.tensor(U, dtype=torch.float64), device=torch.device("cpu"))


def make_lind(om2, de, ph, U, jumps, dtype="complex"):
    import torch
    from emu_sv.lindblad_operator import RydbergLindbladian

    dt = torch.complex128 if dtype == "complex" else torch.float64
    return RydbergLindbladian(
        omegas=torch.tensor(om2, dtype=dt), deltas=torch.tensor(de, dtype=dt), phis=torch.tensor(ph, dtype=dt),
        pulser_lindblads=[torch.tensor(j, dtype=torch.complex128) for j in jumps],
        interaction_matrix=torch.tensor(U, dtype=torch.float64), device=torch.device("cpu"))


def herm_basis(D: int, k: int) -> np.ndarray:
    a, b = divmod(k, D)
    m = np.zeros((D, D), dtype=complex)
    if a == b:
        m[a, a] = 1
    elif a < b:
        m[a, b] = m[b, a] = 1
    else:
        m[a, b] = 1j
        m[b, a] = -1j
    return m


def probe_worker(items: list) -> list:
    """items: [("HAM"|"LIND", om, ph, de, uu_pairs, jl, arg, entries)] -> list of failures."""
    import torch

    torch.set_num_threads(1)
    NotCpu = _fake_gpu_cls()
    fails = []
    cache: dict = {}
    for it in items:
        kind, om, ph, de, uu, jl, arg, entries = it
        n = len(om)
        D = 2**n
        U = np.zeros((n, n))
        for (i, j) in uu:
            U[i, j] = U[j, i] = 1.0
        om2 = [2.0 * x for x in om]
        phv = [x * math.pi / 2 for x in ph]
        jumps = [np.array([[complex(*j[0]), complex(*j[1])], [complex(*j[2]), complex(*j[3])]]) for j in jl]
        desc = {"N": n, "Omega": om2, "phi_quarter_turns": ph, "delta": de, "U_pairs": uu, "jumps": jl, "probe": arg}
        try:
            if kind == "HAM":
                exp = np.zeros(D, dtype=complex)
                for r, re, im in entries:
                    exp[r] = complex(re, im)
                key = ("H", tuple(om), tuple(ph), tuple(de), tuple(map(tuple, uu)))
                if key not in cache:
                    cache.clear()
                    cache[key] = make_ham(om2, de, phv, U)
                v = torch.zeros(D, dtype=torch.complex128)
                v[arg] = 1.0
                got = (cache[key] * v).numpy()
                err = float(np.abs(got - exp).max())
                if err > 1e-14:
                    r = int(np.argmax(np.abs(got - exp)))
                    path = "complex" if any(ph) else "real"
                    fails.append((f"sv:hamiltonian:{path}-path:entry-differs", f"<{r}|H|{arg}> = {got[r]} but the Hamiltonian's entry is {exp[r]}", desc))
            else:
                exp = np.zeros((D, D), dtype=complex)
                for r, c, re, im in entries:
                    exp[r, c] = complex(re, im)
                rho = herm_basis(D, arg)
                key = ("L", tuple(om), tuple(ph), tuple(de), tuple(map(tuple, uu)), json.dumps(jl))
                if key not in cache:
                    cache.clear()
                    cache[key] = make_lind(om2, de, phv, U, jumps)
                L = cache[key]
                got = 2.0 * (L @ torch.tensor(rho, dtype=torch.complex128)).numpy()
                err = float(np.abs(got - exp).max())
                if err > 1e-13:
                    r, c = np.unravel_index(np.argmax(np.abs(got - exp)), got.shape)
                    fails.append(("sv:lindbladian:cpu-path:entry-differs", f"2(L@rho)[{r},{c}] = {got[r, c]} but 2i*Lindblad(rho) has {exp[r, c]}", desc))
                gotb = 2.0 * torch.Tensor.as_subclass(L @ torch.tensor(rho, dtype=torch.complex128).as_subclass(NotCpu), torch.Tensor).numpy()
                errb = float(np.abs(gotb - exp).max())
                if errb > 1e-13:
                    r, c = np.unravel_index(np.argmax(np.abs(gotb - exp)), gotb.shape)
                    fails.append(("sv:lindbladian:batched-path:entry-differs", f"batched branch: 2(L@rho)[{r},{c}] = {gotb[r, c]} but 2i*Lindblad(rho) has {exp[r, c]}", desc))
        except Exception as ex:
            fails.append((f"sv:{'hamiltonian' if kind == 'HAM' else 'lindbladian'}:raises-{type(ex).__name__}", f"{type(ex).__name__}: {str(ex)[:200]}", desc))
    return fails


# ------------------------------------------------------------------------------------------- random dense
def rand_case(seed: int, idx: int, n: int) -> dict:
    rng = np.random.default_rng([seed, 606, idx, n])
    mode = idx % 4                      # 0: all phases zero (fast path) 1: mixed zeros 2: all non-zero 3: zero amplitudes somewhere
    om = rng.uniform(-6, 6, n)
    de = rng.uniform(-8, 8, n)
    ph = rng.uniform(-math.pi, math.pi, n)
    if mode == 0:
        ph[:] = 0.0
    elif mode == 1:
        ph[rng.random(n) < 0.5] = 0.0
    elif mode == 3:
        om[rng.random(n) < 0.5] = 0.0
    U = rng.normal(size=(n, n)) * 5
    U[rng.random((n, n)) < 0.3] = 0.0
    U = np.triu(U, 1)
    U = U + U.T
    nj = int(rng.integers(0, 7)) if idx % 5 else 0
    jumps = [(rng.normal(size=(2, 2)) + 1j * rng.normal(size=(2, 2))) * rng.choice([0.1, 1.0]) for _ in range(nj)]
    if nj and idx % 7 == 0:               # structured ones: decay, dephasing
        jumps[0] = np.array([[0, 0.7], [0, 0]], dtype=complex)
    return {"idx": idx, "n": n, "mode": mode, "omega": om.tolist(), "delta": de.tolist(), "phi": ph.tolist(), "U": U.tolist(),
            "jumps": [[[[float(v.real), float(v.imag)] for v in row] for row in j] for j in jumps],
            "dtype": "float" if idx % 6 == 5 else "complex"}


def rand_worker(arg: tuple) -> dict:
    import torch
    from emu_base.math.matmul import matmul_2x2_with_batched

    torch.set_num_threads(1)
    NotCpu = _fake_gpu_cls()
    seed, cases = arg
    res = {"fails": [], "margin": 0.0, "n": 0, "branch_calls": 0}
    for (idx, n) in cases:
        c = rand_case(seed, idx, n)
        rng = np.random.default_rng([seed, 607, idx, n])
        D = 2**n
        U = np.array(c["U"])
        jumps = [np.array([[complex(*v) for v in row] for row in j]) for j in c["jumps"]]
        Href = dense.hamiltonian(c["omega"], c["delta"], c["phi"], U, "rydberg", 2)
        hs = np.abs(c["omega"]).sum() / 2 + np.abs(c["delta"]).sum() + np.abs(np.triu(U, 1)).sum()
        desc = {k: c[k] for k in ("idx", "n", "mode", "omega", "delta", "phi", "U", "jumps", "dtype")}
        try:
            # Hamiltonian on a random complex vector
            v = rng.normal(size=D) + 1j * rng.normal(size=D)
            H = make_ham(c["omega"], c["delta"], c["phi"], U, c["dtype"])
            got = (H * torch.tensor(v, dtype=torch.complex128)).numpy()
            err = float(np.abs(got - Href @ v).max())
            bud = 1e-13 * (1 + hs) * float(np.abs(v).max())
            res["margin"] = max(res["margin"], err / bud)
            if err > bud:
                path = "complex" if any(c["phi"]) else "real"
                res["fails"].append((f"sv:hamiltonian:{path}-path:dense-mismatch", f"max |H*v - H_dense v| = {err:.3e} (budget {bud:.1e}), N={n}", desc))
            # Lindbladian on a random Hermitian matrix (N <= 7 keeps the dense reference cheap)
            if n <= 7:
                a = rng.normal(size=(D, D)) + 1j * rng.normal(size=(D, D))
                rho = (a + a.conj().T) / 2
                Ls = dense.all_site_ops(jumps, n, 2) if jumps else []
                ref = 1j * dense.lindblad_rhs(Href, Ls, rho)
                L = make_lind(c["omega"], c["delta"], c["phi"], U, jumps, c["dtype"])
                js = sum(float(np.abs(j).sum()) ** 2 for j in jumps)
                bud = 1e-13 * (1 + 2 * hs + 2 * n * js) * float(np.abs(rho).max()) * 4
                got = (L @ torch.tensor(rho, dtype=torch.complex128)).numpy()
                err = float(np.abs(got - ref).max())
                res["margin"] = max(res["margin"], err / bud)
                if err > bud:
                    res["fails"].append(("sv:lindbladian:cpu-path:dense-mismatch", f"max |L@rho - i*Lindblad(rho)| = {err:.3e} (budget {bud:.1e}), N={n}, {len(jumps)} jump operators", desc))
                calls = {"n": 0}
                import emu_sv.lindblad_operator as lo
                orig = lo.matmul_2x2_with_batched

                def counting(left, right, _o=orig, _c=calls):
                    _c["n"] += 1
                    return _o(left, right)

                lo.matmul_2x2_with_batched = counting      # harness-level wrapper (observation only)
                try:
                    gotb = torch.Tensor.as_subclass(L @ torch.tensor(rho, dtype=torch.complex128).as_subclass(NotCpu), torch.Tensor).numpy()
                finally:
                    lo.matmul_2x2_with_batched = orig
                res["branch_calls"] += calls["n"]
                errb = float(np.abs(gotb - ref).max())
                res["margin"] = max(res["margin"], errb / bud)
                if errb > bud:
                    res["fails"].append(("sv:lindbladian:batched-path:dense-mismatch", f"batched branch: max |L@rho - i*Lindblad(rho)| = {errb:.3e} (budget {bud:.1e}), N={n}", desc))
                if float(np.abs(gotb - got).max()) > bud:
                    res["fails"].append(("sv:lindbladian:cpu-vs-batched-differ", f"CPU and batched branches differ by {float(np.abs(gotb - got).max()):.3e}, N={n}", desc))
            # the same parameter tensors, updated IN PLACE, handed to a second construction (an optimiser step, a time loop that
            # reuses its buffers): the second operator must represent the CURRENT values, whatever an earlier construction saw
            if n <= 5 and idx % 3 == 0:
                from emu_sv.hamiltonian import RydbergHamiltonian
                from emu_sv.lindblad_operator import RydbergLindbladian
                cd = torch.complex128
                t_om, t_de, t_ph = (torch.tensor(c[k], dtype=cd) for k in ("omega", "delta", "phi"))
                t_U = torch.tensor(U, dtype=torch.float64)
                t_j = [torch.tensor(j, dtype=cd) for j in jumps]
                dev = torch.device("cpu")
                RydbergHamiltonian(omegas=t_om, deltas=t_de, phis=t_ph, interaction_matrix=t_U, device=dev)
                RydbergLindbladian(omegas=t_om, deltas=t_de, phis=t_ph, pulser_lindblads=t_j, interaction_matrix=t_U, device=dev)
                t_U.mul_(1.75)
                t_om.mul_(0.5)
                t_de.add_(0.375)
                H2ref = dense.hamiltonian(np.real(t_om.numpy()), np.real(t_de.numpy()), np.real(t_ph.numpy()), t_U.numpy(), "rydberg", 2)
                v2 = rng.normal(size=D) + 1j * rng.normal(size=D)
                H2 = RydbergHamiltonian(omegas=t_om, deltas=t_de, phis=t_ph, interaction_matrix=t_U, device=dev)
                e2 = float(np.abs((H2 * torch.tensor(v2, dtype=cd)).numpy() - H2ref @ v2).max())
                b2 = 1e-13 * (1 + 2 * hs) * float(np.abs(v2).max())
                if e2 > b2:
                    res["fails"].append(("sv:hamiltonian:stale-values-after-in-place-update", f"second construction from tensors updated in place: max |H*v - H_dense v| = {e2:.3e} (budget {b2:.1e}), N={n}", desc))
                a2 = rng.normal(size=(D, D)) + 1j * rng.normal(size=(D, D))
                rho2 = (a2 + a2.conj().T) / 2
                Ls2 = dense.all_site_ops(jumps, n, 2) if jumps else []
                L2 = RydbergLindbladian(omegas=t_om, deltas=t_de, phis=t_ph, pulser_lindblads=t_j, interaction_matrix=t_U, device=dev)
                e3 = float(np.abs((L2 @ torch.tensor(rho2, dtype=cd)).numpy() - 1j * dense.lindblad_rhs(H2ref, Ls2, rho2)).max())
                js2 = sum(float(np.abs(j).sum()) ** 2 for j in jumps)
                b3 = 1e-13 * (1 + 4 * hs + 2 * n * js2) * float(np.abs(rho2).max()) * 4
                if e3 > b3:
                    res["fails"].append(("sv:lindbladian:stale-values-after-in-place-update", f"second construction from tensors updated in place: max |L@rho - i*Lindblad(rho)| = {e3:.3e} (budget {b3:.1e}), N={n}", desc))
            # the 2x2 batched product itself
            left = torch.tensor(rng.normal(size=(2, 2)) + 1j * rng.normal(size=(2, 2)), dtype=torch.complex128)
            right = torch.tensor(rng.normal(size=(2 ** int(rng.integers(0, 5)), 2, 2 ** int(rng.integers(0, 6)))) * (1 + 0j), dtype=torch.complex128)
            right = right + 1j * torch.tensor(rng.normal(size=tuple(right.shape)))
            d = float((matmul_2x2_with_batched(left, right) - left @ right).abs().max())
            if d > 1e-13 * float(left.abs().max() * right.abs().max()) * 4:
                res["fails"].append(("sv:matmul_2x2_with_batched:differs-from-matmul", f"max difference {d:.3e} for right shape {tuple(right.shape)}",
                                     {"left": left.numpy(), "right_shape": list(right.shape), "idx": idx}))
        except Exception as ex:
            res["fails"].append((f"sv:operators:raises-{type(ex).__name__}", f"{type(ex).__name__}: {str(ex)[:200]}", desc))
        res["n"] += 1
    return res


def final_coverage_zero(res: dict) -> list:
    """Actions never taken according to the LAST coverage snapshot of a TLC run (run_tlc's `coverage_zero`
    also counts the intermediate snapshots TLC prints every minute, where late actions still show 0)."""
    import re as _re

    out = res.get("out", "")
    k = out.rfind("The coverage statistics at")
    if k < 0:
        return sorted(res.get("coverage_zero") or [])
    zero = []
    for line in out[k:].splitlines():
        m = _re.match(r"^<(\w+) line \d+, col \d+ to line \d+, col \d+ of module \w+>: (\d+):(\d+)", line.strip())
        if m and int(m.group(3)) == 0:
            zero.append(m.group(1))
    return sorted(set(zero))


# ------------------------------------------------------------------------------------------- driver
def parse_probes(out: str) -> list:
    items = []
    for t in printed_tuples(out):
        if t[0] not in ("HAM", "LIND"):
            continue
        par, arg, ent = t[1], t[2], t[3]
        om, ph, de, uu, jl = par
        items.append((t[0], om, ph, de, [list(p) for p in uu["__set__"]], jl, arg, [list(e) for e in ent["__set__"]]))
    return items


def run(ctx: Ctx) -> None:
    import os

    ctx.level = "model_checking"
    ctx.assumptions += [
        "SVOperator.tla's mechanism is a transcription of emu_sv/hamiltonian.py and emu_sv/lindblad_operator.py; conformance of the real classes is established on every probe TLC enumerates (exact entry comparison), not assumed",
        "unit probes determine the operators per code path by real-linearity in (Omega e^{i phi}, delta, U) and the argument and sesquilinearity in each jump operator; general values are covered by the random dense comparison only",
        "the batched (GPU) branch is executed on CPU memory through a torch.Tensor subclass reporting is_cpu = False; real CUDA kernels are not exercised (no GPU in the sandbox)",
        "reference: harness/ref/dense.py (Pulser's documented conventions); numpy; TLC",
    ]
    procs = int(os.environ.get("VERIF_PROCS", "16"))
    seed = ctx.seed
    fails: dict[str, dict] = {}

    def note(key, what, desc):
        cur = fails.get(key)
        if cur is None:
            fails[key] = {"count": 1, "what": what, "desc": desc}
        else:
            cur["count"] += 1
            if desc.get("N", desc.get("n", 99)) < cur["desc"].get("N", cur["desc"].get("n", 99)):
                cur["what"], cur["desc"] = what, desc

    if ctx.replay:
        rp = json.loads(Path(ctx.replay).read_text())["replay"]
        if "probe" in rp:
            d = rp
            item = ("LIND" if d.get("kind") == "LIND" else "HAM", [x / 2 for x in d["Omega"]], d["phi_quarter_turns"], d["delta"], d["U_pairs"], d["jumps"], d["probe"], d.get("entries", []))
            for key, what, desc in probe_worker([item]):
                ctx.violation(key, what, desc)
        else:
            r = rand_worker((rp.get("seed", seed), [(rp["idx"], rp["n"])]))
            for key, what, desc in r["fails"]:
                ctx.violation(key, what, desc)
        ctx.case("replay-a")
        ctx.case("replay-b")
        ctx.coverage["rule"] = "replay of one stored case"
        return

    # ---------------------------------------------------------------- (1) TLC
    jobs = [
        ("ham_1", cfg_text(1, 2, 1, "cNoJumps", True, False, True)),
        ("ham_2", cfg_text(2, 5, 2, "cNoJumps", True, False, True)),
        ("ham_3", cfg_text(3, 2, 2, "cNoJumps", True, False, True)),
        ("lind_1", cfg_text(1, 2, 1, "cJumpsFull", False, True, True)),
        ("lind_2", cfg_text(2, 1, 1, "cJumpsSmall", False, True, True)),
    ]
    if not ctx.quick:
        jobs += [
            ("ham_3wide", cfg_text(3, 3, 3, "cNoJumps", True, False, True)),
            ("ham_4", cfg_text(4, 2, 1, "cNoJumps", True, False, True)),
            ("lind_2mid", cfg_text(2, 2, 1, "cJumpsMid", False, True, True)),
        ]
    heavy = {"lind_2": 8, "lind_2mid": 8, "ham_3wide": 4, "ham_4": 4, "ham_3": 2}

    def job(j):
        return run_tlc("MCSVOperator", None, workdir=ctx.work, name=j[0], cfg_text=j[1], workers=min(heavy.get(j[0], 1), max(1, procs // 2)), coverage=True, timeout=3000)

    jobs.sort(key=lambda j: -heavy.get(j[0], 1))
    with ThreadPoolExecutor(max_workers=max(2, procs // 4)) as ex:
        results = list(ex.map(job, jobs))
    probes = []
    model_bad = []
    never = None          # actions taken in NO configuration (each configuration switches one operator off by design)
    for j, res in zip(jobs, results):
        res["coverage_zero"] = final_coverage_zero(res)
        ctx.add_tlc(res)
        ctx.log(f"TLC {j[0]}: {res.get('distinct')} states, {res['wall_s']} s, violated={res['violated']}")
        if res["violated"]:
            model_bad.append((j[0], res["violated"]))
            continue
        never = set(final_coverage_zero(res)) if never is None else never & set(final_coverage_zero(res))
        p = parse_probes(res["out"])
        if not p:
            raise MachineryError(f"no probes printed by TLC for {j[0]}")
        probes += p
    ctx.coverage["tlc_model_violations"] = [f"{a}: {b}" for a, b in model_bad]
    if never:
        ctx.notes.append(f"spec actions never taken in any configuration: {sorted(never)}")

    # ---------------------------------------------------------------- (2) replay of every probe on the real classes
    probes.sort(key=lambda it: (it[0], len(it[1]), json.dumps(it[1:6])))
    seen = set()
    uniq = []
    for it in probes:
        k = json.dumps(it[:7])
        if k not in seen:
            seen.add(k)
            uniq.append(it)
    csz = max(50, len(uniq) // (4 * procs) + 1)
    chunks = [uniq[a:a + csz] for a in range(0, len(uniq), csz)]
    for part in pmap(probe_worker, chunks, procs=procs):
        for key, what, desc in part:
            note(key, what, desc)
    nh = sum(1 for it in uniq if it[0] == "HAM")
    for it in uniq:
        nontriv = bool(it[7])
        ctx.case(("probe",) + tuple(json.dumps(x) for x in it[:7]), nontrivial=nontriv,
                 sample={"operator": it[0], "N": len(it[1]), "Omega/2": it[1], "phase_quarter_turns": it[2], "delta": it[3], "U=1_pairs": it[4], "jumps": it[5],
                         "probe_index": it[6], "expected_entries": it[7][:6]} if (nontriv and it[5] and len(it[1]) == 2) or (nontriv and it[0] == "HAM" and len(it[1]) == 3 and any(it[2])) else None)
    ctx.traces_validated += len(uniq)
    ctx.log(f"replayed {len(uniq)} TLC probes on the real classes ({nh} H*e_c, {len(uniq) - nh} L@rho_b on CPU and batched branch)")
    ctx.coverage["probes"] = {"hamiltonian": nh, "lindbladian": len(uniq) - nh}

    # ---------------------------------------------------------------- (3) random dense comparison
    per_n = ctx.pick({1: 40, 2: 60, 3: 80, 4: 80, 5: 60, 6: 40, 7: 16, 8: 12}, {1: 300, 2: 500, 3: 800, 4: 800, 5: 600, 6: 400, 7: 160, 8: 120})
    cases = [(i, n) for n, cnt in per_n.items() for i in range(cnt)]
    cases.sort(key=lambda c: -c[1])
    nchunk = 4 * procs
    chunks2 = [(seed, cases[a::nchunk]) for a in range(nchunk) if cases[a::nchunk]]
    worst = 0.0
    calls = 0
    for res in pmap(rand_worker, chunks2, procs=procs):
        worst = max(worst, res["margin"])
        calls += res["branch_calls"]
        for key, what, desc in res["fails"]:
            note(key, what, desc)
    for (i, n) in cases:
        ctx.case(("rand", n, i))
    ctx.sample({"random_case": rand_case(seed, 1, 2)})
    if calls == 0:
        raise MachineryError("the batched branch of RydbergLindbladian was never entered (is_cpu subclass no longer effective)")
    ctx.log(f"random dense comparison: {len(cases)} cases, worst err/budget {worst:.3g}, batched-matmul calls {calls}")
    ctx.coverage["worst_margin_err_over_budget"] = worst
    ctx.coverage["batched_branch_calls"] = calls
    ctx.coverage["random_cases_per_N"] = {str(k): v for k, v in per_n.items()}

    for key in sorted(fails):
        f = fails[key]
        ctx.violation(key, f"{f['what']} [{f['count']} cases]", f["desc"])
    if model_bad and not fails:
        ctx.model_drift(f"SVOperator's mechanism violates its requirement ({model_bad}) but the real classes pass every probe: the model no longer describes the code")
    ctx.coverage["rule"] = ("probe = (operator, unit parameter assignment, basis vector / Hermitian basis matrix) enumerated by TLC and replayed on the real class, non-trivial when the expected result is non-zero; "
                            "random case = (N, index) with drawn drive values, interactions, jump operators and argument")
    ctx.coverage["exhaustive"] = True
