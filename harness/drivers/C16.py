"""C16 - emu-sv open-system runs solve the Lindblad equation and stay physical.

Same machinery as C01 (SVRun.tla model of the step loop, SVRunTrace.tla validation of real hook traces)
with the Lindblad stepper: the density matrix at every evaluation time must equal the exact propagation
exp(dt L_k) of the piecewise-constant Lindblad generator built from the rows the stepper received and the
jump operators of the noise model (dense Liouvillian, 4^N <= 1024), within 10*tol per step, and must be
Hermitian, trace one and positive semidefinite.
"""
from __future__ import annotations

import math

from harness.core import Ctx
from harness.drivers.C01 import evaluate, make_jobs, model
from harness.pool import pmap
from harness.svrun import sv_worker


def noise_specs(rng, i: int) -> dict:
    kinds = [
        {"relaxation_rate": rng.uniform(0.05, 3.0)},
        {"dephasing_rate": rng.uniform(0.05, 3.0)},
        {"depolarizing_rate": rng.uniform(0.05, 2.0)},
        {"relaxation_rate": rng.uniform(0.05, 1.0), "dephasing_rate": rng.uniform(0.05, 1.0), "depolarizing_rate": rng.uniform(0.01, 0.5)},
        "eff",
        "eff2",
    ]
    k = kinds[i % len(kinds)]
    if k == "eff":
        a = [[rng.uniform(-1, 1), rng.uniform(-1, 1)] for _ in range(4)]
        m = [[a[0], a[1]], [a[2], a[3]]]
        return {"eff_noise_rates": [rng.uniform(0.1, 2.0)], "eff_noise_opers": [m]}
    if k == "eff2":
        ms = []
        for _ in range(2):
            a = [[rng.uniform(-1, 1), rng.uniform(-1, 1)] for _ in range(4)]
            ms.append([[a[0], a[1]], [a[2], a[3]]])
        return {"eff_noise_rates": [rng.uniform(0.1, 1.0), rng.uniform(0.1, 1.0)], "eff_noise_opers": ms, "dephasing_rate": rng.uniform(0.05, 0.5)}
    return k


def run(ctx: Ctx) -> None:
    ctx.level = "exploration"
    ctx.assumptions += [
        "reference: dense Liouvillian propagator scipy.linalg.expm(dt*L_k) per step, L_k from the rows the stepper received and the emulator's jump-operator list (whether that list is what Pulser defines is C24's subject); stands in for Pulser's master-equation solver, which is not installed",
        "budget: 10*tol per step + rounding on the Frobenius norm of rho; physicality with the same slack",
    ]
    n = ctx.pick(60, 240)
    jobs = make_jobs(ctx, n, lind=True)
    for i, j in enumerate(jobs):
        j["noise"] = noise_specs(ctx.rng, i)
        j["ct"] = False
        if i % 4 == 1:
            j["init"] = "mixed"        # mixed initial density matrix
        if i % 3 == 1:
            j["twice"] = True          # same config object used for a second run
        j["strata"]["init"] = j.get("init")
        j["strata"]["twice"] = bool(j.get("twice"))
        j["strata"]["noise"] = sorted(j["noise"].keys())
        j["obs"] = [o for o in j["obs"] if o["k"] in ("occupation", "state", "correlation_matrix", "energy")]
        if not any(o["k"] == "state" for o in j["obs"]):
            j["obs"].append({"k": "state", "times": None})
    results = pmap(sv_worker, jobs)
    evaluate(ctx, jobs, results, "svlind")
    model(ctx, 0, "start")
    ctx.coverage["rule"] = "one case per scenario = (strata tuple incl. noise channel set, dt, tol); noise: relaxation / dephasing / depolarizing / combinations / random complex 2x2 effective operators"
