"""C29 - physically equivalent inputs give equivalent results.

Pairs of REAL runs (original, transformed) on both backends; transformations: rigid translation, rotation,
reflection of the register, constant offset on all phases, negation of all phases, serialise / deserialise of
the sequence.  The harness computes equality atoms on the two Results (budgets of C01 / C02; bitstring
distributions by a two-sample chi-square at a family-wise 1e-9) and MetaTrace.tla decides every pair.
"""
from __future__ import annotations

import copy
import math

import numpy as np

from harness.core import Ctx, MachineryError
from harness.gen import scen
from harness.pool import pmap
from harness.traces import validate_batch

TAUS = ["translate", "rotate", "reflect", "phase_offset", "phase_negate", "roundtrip"]


def transform(spec: dict, tau: str, rng) -> dict:
    s = copy.deepcopy(spec)
    if tau == "translate":
        dx, dy = rng.uniform(-15, 15), rng.uniform(-15, 15)
        s["coords"] = [[c[0] + dx, c[1] + dy] for c in s["coords"]]
    elif tau == "rotate":
        a = rng.uniform(0.1, 6.0)
        s["coords"] = [[math.cos(a) * c[0] - math.sin(a) * c[1], math.sin(a) * c[0] + math.cos(a) * c[1]] for c in s["coords"]]
    elif tau == "reflect":
        s["coords"] = [[-c[0], c[1]] for c in s["coords"]]
    elif tau == "phase_offset":
        off = rng.uniform(0.3, 3.0)
        for o in s["ops"]:
            if o["op"] == "add":
                o["pulse"]["phase"] = o["pulse"].get("phase", 0.0) + off
    elif tau == "phase_negate":
        for o in s["ops"]:
            if o["op"] == "add":
                o["pulse"]["phase"] = -o["pulse"].get("phase", 0.0)
    elif tau == "roundtrip":
        s["_roundtrip"] = True
    return s


def worker(job: dict) -> dict:
    import random
    import pulser
    import torch
    from harness.gen import seqs
    from harness.svrun import make_observables
    from harness.smallruns import results_table

    out = {"id": job["id"], "error": None, "stage": "build"}
    try:
        tabs = []
        for which in ("a", "b"):
            spec = job[which]
            seq = seqs.build_sequence(spec)
            if spec.get("_roundtrip"):
                seq = pulser.Sequence.from_abstract_repr(seq.to_abstract_repr())
            random.seed(job["seed"])
            torch.manual_seed(job["seed"])
            obs = make_observables(job["obs"])
            out["stage"] = "run"
            if job["backend"] == "sv":
                from emu_sv import SVBackend, SVConfig
                res = SVBackend(seq, config=SVConfig(dt=job["dt"], krylov_tolerance=job["tol"], observables=obs, log_level=100, gpu=False)).run()
            else:
                from emu_mps import MPSBackend, MPSConfig
                res = MPSBackend(seq, config=MPSConfig(dt=job["dt"], precision=job["precision"], observables=obs, log_level=100, optimize_qubit_ordering=job["reorder"])).run()
            tabs.append(results_table(res))
        out["a"], out["b"] = tabs
        out["stage"] = "done"
    except BaseException as e:  # noqa
        import traceback
        out["error"] = f"{type(e).__name__}: {e}"
        out["tb"] = traceback.format_exc()[-1200:]
    return out


def chi2_two_sample(c1: dict, c2: dict) -> float:
    """p-value of the two-sample chi-square test on two bitstring counters (bins with pooled count < 10 merged)."""
    from scipy.stats import chi2

    keys = sorted(set(c1) | set(c2))
    a = np.array([c1.get(k, 0) for k in keys], float)
    b = np.array([c2.get(k, 0) for k in keys], float)
    tot = a + b
    big = tot >= 10
    a2 = np.append(a[big], a[~big].sum())
    b2 = np.append(b[big], b[~big].sum())
    keep = (a2 + b2) > 0
    a2, b2 = a2[keep], b2[keep]
    if len(a2) < 2:
        return 1.0
    n1, n2 = a2.sum(), b2.sum()
    stat = ((a2 * math.sqrt(n2 / n1) - b2 * math.sqrt(n1 / n2)) ** 2 / (a2 + b2)).sum()
    return float(chi2.sf(stat, len(a2) - 1))


def run(ctx: Ctx) -> None:
    ctx.level = "exploration"
    ctx.assumptions += [
        "value budgets: emu-sv 2 * (10*tol*steps) * scale + 1e-9; emu-mps 2 * (5*steps*2(N-1)*precision + 1e-6) * scale, doubled because two runs are compared; energy scale = sum of |coefficients|",
        "bitstring distributions: two-sample chi-square with Bonferroni correction to a family-wise 1e-9",
        "negating all phases is checked only on sequences whose pulses share one phase: with a phase jump phi -> -phi reverses the sign of the relative phase, which is not a symmetry (H -> H*, time reversal)",
        "per-atom results are compared position by position: the transformations keep the atom labels and order",
    ]
    rng = ctx.rng
    n = ctx.pick(48, 480)
    jobs = []
    for i in range(n):
        # full factorial transformation x backend x phase kind (48 cells); waveform and DMM kinds rotate independently
        tau = TAUS[i % len(TAUS)]
        backend = "sv" if (i // 6) % 2 == 0 else "mps"
        na = rng.choice([2, 3, 4, 5])
        spec = scen.sequence_spec(rng, na, scen.WF_KINDS[(i + i // 5) % 5], scen.PHASE_KINDS[(i // 12) % 4], scen.DMM_KINDS[(i + i // 6) % 3], "none", rng.choice([20, 40, 60]))
        if tau == "phase_negate":
            # phi -> -phi maps H to its complex conjugate, i.e. to the TIME-REVERSED dynamics; it is a symmetry of the
            # reported quantities only when all pulses share one phase (then it is a constant offset, see DESIGN 4/C29).
            # With a phase jump between pulses the relative phase changes sign and the physics changes.
            ph = [o["pulse"].get("phase", 0.0) for o in spec["ops"] if o["op"] == "add"]
            for o in spec["ops"]:
                if o["op"] == "add":
                    o["pulse"]["phase"] = ph[0]
        if tau == "roundtrip":
            # integer ids whose numeric and lexicographic orders differ from each other and from the register order: the
            # serialised sequence carries them as strings ("10" < "2" < "9")
            pool = rng.sample([2, 10, 9, 33, 100, 7, 41, 5], na)
            spec["ids"] = pool
            if spec.get("dmm"):
                spec["dmm"]["weights"] = {pool[int(k[1:])]: v for k, v in spec["dmm"]["weights"].items()}
        b = transform(spec, tau, rng)
        dur = scen.spec_duration(spec)
        dt = float(rng.choice([d for d in (2, 4, 5, 10) if dur % d == 0]))
        times = [0.5, 1.0]
        obs = [{"k": "occupation", "times": times}, {"k": "correlation_matrix", "times": times}, {"k": "energy", "times": times}, {"k": "bitstrings", "times": [1.0], "shots": 2000}]
        jobs.append({"id": i + 1, "backend": backend, "a": spec, "b": b, "tau": tau, "dt": dt, "tol": 1e-10, "precision": 1e-7, "reorder": (i // 6) % 4 != 1,
                     "obs": obs, "seed": ctx.seed * 31 + i, "n": na, "steps": int(dur // dt)})
    results = pmap(worker, jobs)
    traces, meta = [], {}
    ntests = sum(1 for _ in jobs)
    alpha = 1e-9 / max(ntests, 1)
    for job, r in zip(jobs, results):
        ctx.case((job["backend"], job["tau"], job["n"], job["dt"], job["id"]), sample={"backend": job["backend"], "tau": job["tau"], "atoms": job["n"]})
        if r["error"]:
            if r["stage"] == "build":
                ctx.notes.append(f"pair {job['id']} not built: {r['error'][:100]}")
                ctx.log(f"pair {job['id']} ({job['tau']}) not built: {r['error'][:160]}")
                continue
            if r["stage"] == "run":
                ctx.violation(f"meta:{job['backend']}:{job['tau']}:run-raised", f"a run of the pair raised: {r['error'][:300]}", job)
                continue
            raise MachineryError(f"worker failed: {r['error']}\n{r.get('tb')}")
        a, b = r["a"], r["b"]
        steps = max(job["steps"], 1)
        if job["backend"] == "sv":
            base = 2 * 10 * job["tol"] * steps + 1e-9
        else:
            base = 2 * (5 * steps * 2 * max(job["n"] - 1, 1) * job["precision"] + 1e-6)
        ev = [{"ev": "rel", "tau": job["tau"]}]
        why = []
        for tag in sorted((set(a) | set(b)) - {"atom_order"}):
            ta = [t for t, _ in a.get(tag, [])]
            tb = [t for t, _ in b.get(tag, [])]
            same = tag in a and tag in b and len(ta) == len(tb) and all(abs(x - y) < 1e-12 for x, y in zip(ta, tb))
            ev.append({"ev": "sched", "tag": tag, "same": bool(same)})
            if not same:
                continue
            for k, ((t, va), (_, vb)) in enumerate(zip(a[tag], b[tag])):
                if tag == "bitstrings":
                    p = chi2_two_sample(va, vb)
                    ev.append({"ev": "dist", "tag": tag, "k": k, "same": bool(p >= alpha)})
                    if p < alpha:
                        why.append(f"bitstrings p={p:.2e}")
                    continue
                xa, xb = np.asarray(va, dtype=complex), np.asarray(vb, dtype=complex)
                scale = 1.0
                if tag == "energy":
                    scale = max(abs(xa).max(), 30.0 * job["n"])
                eq = xa.shape == xb.shape and float(np.max(np.abs(xa - xb))) <= 2 * scale * base
                ev.append({"ev": "val", "tag": tag, "k": k, "eq": bool(eq)})
                if not eq:
                    why.append(f"{tag}@{t}: max diff {float(np.max(np.abs(xa - xb))):.3e} > {2 * scale * base:.3e}")
        ev.append({"ev": "end"})
        tr = {"id": len(traces) + 1, "events": ev}
        traces.append(tr)
        meta[tr["id"]] = (job, why)
    verdicts = validate_batch(ctx, "MetaTrace", traces, "meta")
    for tr in traces:
        v = verdicts[tr["id"]]
        if v[0] == "REJECT":
            job, why = meta[tr["id"]]
            ctx.violation(f"meta:{job['backend']}:{job['tau']}:{v[2]}", f"{job['backend']} results change under '{job['tau']}': {v[2]} ({'; '.join(why[:3])})", {"job": job, "why": why})
    ctx.coverage["rule"] = "one case per (backend, transformation, scenario) pair of real runs"
