"""C33 - configuration safeguards are always applied.

(1) TLC: EmuConfig.tla.  Mechanism = MPSConfig.__init__ (autosave assertion, Krylov-tolerance floor,
    permutable-observable whitelist) and create_impl / DMRGBackendImpl.__init__ (solver gate);
    requirement = the four documented safeguards, over the full cross product precision x
    extra_krylov_tolerance x autosave_dt x observable sets x reordering x solver x noise class.
(2) Binding A: TLC-enumerated rows are instantiated on the real code: real MPSConfig(...), then
    create_impl on a real SequenceData (4 atoms whose label order makes the optimiser permute).  The
    requirement is evaluated on the real attributes (tolerance product with 1-ulp slack), on the real
    permutation chosen by the implementation object (point of use), and on the real outcome of
    create_impl.  Real attributes are compared with the model's (mechanism identification / drift).
(3) Random float precision / extra_krylov_tolerance pairs; real short TDVP runs in which every Krylov
    exponentiation logs the tolerance it was actually given (hook event kry_exit).
"""
from __future__ import annotations

import json
import math

from harness.core import Ctx, MachineryError
from harness.drivers._config_rows import INF_TENTHS, MIN_TOL, ULP_SLACK, run_cfg, run_tolerance_at_point_of_use
from harness.pool import pmap
from harness.tlc import printed_tuples, run_tlc

NONPERM = {"state", "fidelity", "expectation", "entanglement_entropy", "custom"}
INVS = ["EffectiveTolAtLeastMin", "ShortAutosaveRejected", "NonPermutableSwitchesReorderOff", "ReorderNeverSwitchedOn", "DMRGRefusesNoise"]
# named mechanism variants (DMRGFirst, GateReads), tried in this order
VARIANTS = {
    "gate_reads_config_noise": (True, "config"),         # HEAD since de839bd: solver gate first, but it only reads mps_config.noise_model
    "gate_reads_effective_noise": (True, "effective"),   # repaired: the refusal looks at the noise model PulserData simulates
    "round0_lindblad_first": (False, "config"),
}
INTENDED = "gate_reads_effective_noise"
IMPL = {"impl:tdvp": "MPSBackendImpl", "impl:dmrg": "DMRGBackendImpl", "impl:noisy-tdvp": "NoisyMPSBackendImpl"}


def cfg_text(sets: dict, variant: tuple, log: bool, floor: str = "lt12", whitelist: str = "cWhitelist") -> str:
    dmrg_first, gate_reads = variant
    t = f"""SPECIFICATION Spec
CONSTANTS
  PExps <- {sets['p']}
  EExps <- {sets['e']}
  AutosaveDts <- {sets['dt']}
  Inf <- cInf
  ObsSets <- {sets['obs']}
  FloorCmp = "{floor}"
  Whitelist <- {whitelist}
  DMRGFirst = {"TRUE" if dmrg_first else "FALSE"}
  Srcs <- {sets.get('src', 'cSrcs')}
  GateReads = "{gate_reads}"
"""
    t += "ACTION_CONSTRAINT LogCfg\n" if log else "".join(f"INVARIANT {i}\n" for i in INVS)
    return t


def parse_rows(out: str) -> list[dict]:
    rows = []
    for t in printed_tuples(out, "CFG"):
        c, eff, o, ok = t[1], t[2], t[3], t[4]
        obs = c["obs"]["__set__"] if isinstance(c["obs"], dict) else list(c["obs"])
        rows.append({"row": {"p": c["p"], "e": c["e"], "dt": c["dt"], "obs": sorted(obs), "reorder": c["reorder"], "solver": c["solver"], "noise": c["noise"], "src": c["src"]},
                     "eff": eff, "out": o, "ok": ok})
    return rows


def rkey(r: dict) -> str:
    return json.dumps([r[k] for k in ("p", "e", "dt", "obs", "reorder", "solver", "noise", "src")])


def judge(res: dict) -> list[tuple[str, str]]:
    """Requirement on the real outcome: list of (key, what) violations."""
    row = res["row"]
    v: list[tuple[str, str]] = []
    c = res["construct"]
    if row["dt"] <= 100:
        if "raised" not in c:
            v.append(("config:autosave_dt<=10s-accepted", f"MPSConfig(autosave_dt={row['dt'] / 10}) was constructed although the interval is not larger than 10 s"))
        return v
    if "raised" in c:
        return v            # nothing constructed: no safeguard can have been skipped
    if not (c["product"] >= MIN_TOL * ULP_SLACK):
        v.append(("config:krylov-tolerance-below-1e-12", f"precision*extra_krylov_tolerance = {c['product']!r} < 1e-12 after construction (precision={res['inputs']['precision']}, extra={res['inputs']['extra_krylov_tolerance']})"))
    nonperm = sorted(set(row["obs"]) & NONPERM)
    impl = res.get("impl", {})
    if nonperm and (c["reorder"] or impl.get("identity") is False):
        v.append((f"config:reordering-kept-with:{'+'.join(nonperm)}",
                  f"optimize_qubit_ordering stayed on (config flag {c['reorder']}, permutation used {impl.get('perm')}) although {nonperm} cannot be un-permuted"))
    if c["reorder"] and not row["reorder"]:
        v.append(("config:reordering-switched-on", "optimize_qubit_ordering=False was requested but the constructed configuration has it on"))
    if (not row["reorder"]) and impl.get("identity") is False:
        v.append(("config:reordering-used-although-off", f"the implementation permutes qubits ({impl.get('perm')}) although reordering is off"))
    if row["solver"] == "dmrg" and row["noise"] != "none":
        run = res.get("run", {})          # the public path MPSBackend(seq, config).run() decides
        if "raised" not in run:
            nclass = "lindblad" if "lindblad" in row["noise"] else row["noise"]
            key = f"dmrg:noise-not-refused:{nclass}" if row["src"] == "config" else "dmrg:device-noise-model-not-refused"
            v.append((key,
                      f"solver=DMRG with a {row['noise']} noise model taken from the {row['src']} was not refused: MPSBackend.run() reached the simulation with {run.get('cls', run)}"))
    return v


def run(ctx: Ctx) -> None:
    ctx.level = "model_checking"
    ctx.assumptions += [
        "observables that cannot be un-permuted = those whose recorded value depends on the chain order and that permute_results does not restore: state, fidelity, expectation, entanglement_entropy, and any observable the package does not know (a user-defined Observable subclass); stated in EmuConfig.tla independently of the code's whitelist",
        "the effective Krylov tolerance is config.precision * config.extra_krylov_tolerance (the expression emu_mps/solver_utils.py passes to krylov_exp); compared with 1e-12 with 8 ulp slack; checked at the point of use through the kry_exit hook on real runs",
        "'DMRG refuses noise': MPSBackend(sequence, config).run() raises before the simulation loop for every EFFECTIVE noise model (the one PulserData simulates: config.noise_model, or the device's default_noise_model with prefer_device_noise_model=True) with at least one noise type; observed on the public path with MPSBackend._run replaced by a sentinel in the harness process; a NoiseModel without noise types is not noise",
        "model numbers are powers of ten / tenths of seconds; other floats are covered by the random tier only",
        "TLC; Pulser NoiseModel / Observable API",
    ]
    full = {"p": "cPExps", "e": "cEExps", "dt": "cDts", "obs": "cObsSets"}
    quick = {"p": "cPExpsQ3", "e": "cEExpsQ4", "dt": "cDtsQ", "obs": "cObsSets"}
    big = quick if ctx.quick else full
    # ---- (1) model checking of the full cross product
    head = next(iter(VARIANTS))
    mc = run_tlc("MCEmuConfig", None, workdir=ctx.work, name=f"mc_{head}", cfg_text=cfg_text(big, VARIANTS[head], False), workers=4)
    ctx.add_tlc(mc)
    ctx.log(f"TLC, mechanism {head}: invariants violated: {[v[1] for v in mc['violated']]} ({mc.get('distinct')} states)")
    mc2 = run_tlc("MCEmuConfig", None, workdir=ctx.work, name="mc_intended", cfg_text=cfg_text(big, VARIANTS[INTENDED], False), workers=4, coverage=True)
    ctx.add_tlc(mc2)
    if mc2["violated"]:
        raise MachineryError(f"intended mechanism violates the requirement in the model: {mc2['violated']}")
    if [a for a in (mc2.get("coverage_zero") or []) if a in ("Construct", "CreateImpl")]:
        raise MachineryError("spec action never taken")
    # self-test of the requirement: seeded defects must be found by TLC
    for nm, kw in (() if ctx.quick else (("floor_le13", {"floor": "le13"}), ("whitelist_state", {"whitelist": "cWhitelistMutant"}))):
        st = run_tlc("MCEmuConfig", None, workdir=ctx.work, name=f"selftest_{nm}", cfg_text=cfg_text(quick, VARIANTS[INTENDED], False, **kw), workers=4)
        if not st["violated"]:
            raise MachineryError(f"seeded model defect {nm} not detected by the invariants (vacuous requirement)")
    ctx.coverage["model_verdicts"] = {head: [v[1] for v in mc["violated"]], INTENDED: [], "seeded_model_defects_detected": [] if ctx.quick else ["floor_le13", "whitelist_state"]}

    # ---- (2) rows for the real code: a reduced cross product and every observable set (noise from the
    #          config), and the noise-source table (noise from the config / from the device)
    cross = ({"p": "cPExpsQ3", "e": "cEExpsQ4", "dt": "cDtsQ3", "obs": "cObsFewQ", "src": "cSrcsC"} if ctx.quick
             else {"p": "cPExps", "e": "cEExps", "dt": "cDtsQ", "obs": "cObsFew", "src": "cSrcsC"})
    obsx = {"p": "cPOne", "e": "cEOne", "dt": "cDtInf", "obs": "cObsSets", "src": "cSrcsC"}
    srcx = ({"p": "cPOne", "e": "cEOne", "dt": "cDtInf", "obs": "cObsFewQ", "src": "cSrcs"} if ctx.quick
            else {"p": "cPExpsQ3", "e": "cEExpsQ4", "dt": "cDtsQ3", "obs": "cObsFew", "src": "cSrcs"})
    tables: dict = {}

    def table(vname: str) -> dict:
        if vname not in tables:
            rows = []
            for name, sets in (("cross", cross), ("obs", obsx), ("src", srcx)):
                log = run_tlc("MCEmuConfig", None, workdir=ctx.work, name=f"log_{name}_{vname}", cfg_text=cfg_text(sets, VARIANTS[vname], True), workers=4)
                ctx.add_tlc(log)
                rows += parse_rows(log["out"])
            if not rows:
                raise MachineryError("TLC printed no rows")
            tables[vname] = {rkey(r["row"]): r for r in rows}
        return tables[vname]

    t0 = table(head)
    rows = [t0[k]["row"] for k in sorted(t0)]
    ctx.log(f"instantiating {len(rows)} TLC rows on the real MPSConfig / create_impl")
    results = pmap(run_cfg, rows, chunksize=100)
    real = {}
    nviol = 0
    for res in results:
        if "harness_error" in res:
            raise MachineryError(f"harness could not build the inputs of {res['row']}: {res['harness_error']}")
        k = rkey(res["row"])
        real[k] = res
        vs = judge(res)
        res["violations"] = vs
        for key, what in vs:
            nviol += 1
            ctx.violation(key, what, {"row": res["row"], "inputs": res.get("inputs"), "construct": res["construct"], "impl": res.get("impl"), "how": "harness.drivers._config_rows.run_cfg(row)"})
        ctx.case(("cfg", k), nontrivial=True,
                 sample={"row": res["row"], "construct": res["construct"], "impl": res.get("impl"), "requirement_holds": not vs} if (res["row"]["p"] + res["row"]["e"] > 12 and res["row"]["obs"]) else None)
        ctx.traces_validated += 1
    ctx.log(f"real rows: {len(real)}, requirement violations: {nviol}")

    def differs(t: dict) -> list:
        d = []
        for k, res in real.items():
            m = t[k]
            c = res["construct"]
            if m["out"] == "rejected:autosave":
                if "raised" not in c:
                    d.append((res["row"], "model rejects autosave, real constructs"))
                continue
            if "raised" in c:
                d.append((res["row"], f"real raises {c['raised']}: {c['msg']}"))
                continue
            real_e = -math.log10(c["extra_krylov_tolerance"])
            if abs(real_e - m["eff"]["e"]) > 1e-6:
                d.append((res["row"], f"extra exponent model {m['eff']['e']} real {real_e:.6f}"))
            if c["reorder"] != m["eff"]["reorder"]:
                d.append((res["row"], f"reorder model {m['eff']['reorder']} real {c['reorder']}"))
            impl = res.get("impl", {})
            want = "raised" if m["out"].startswith("rejected") else IMPL[m["out"]]
            obs_ = res["run"] if "run" in res else impl       # DMRG + noise rows: the public run() path
            got = "raised" if "raised" in obs_ else obs_.get("cls")
            if want != got:
                d.append((res["row"], f"create_impl model {m['out']} real {got} {impl.get('msg', '')}"))
            if m["ok"] != (not res["violations"]):
                d.append((res["row"], f"verdict model {m['ok']} real {not res['violations']}"))
        return d

    matched = None
    first = None
    for vname in VARIANTS:
        d = differs(table(vname))
        if not d:
            matched = vname
            break
        first = first or d
    ctx.coverage["mechanism_identified"] = None if matched is None else {"name": matched, "DMRGFirst": VARIANTS[matched][0], "GateReads": VARIANTS[matched][1]}
    if matched is None:
        ctx.model_drift(f"real MPSConfig / MPSBackend.run / create_impl differ from EmuConfig.tla ({head}) on {len(first)} rows, e.g. {first[0]}")
    else:
        ctx.log(f"mechanism identified: {matched} {VARIANTS[matched]} (attributes, implementation class and verdict equal on all {len(real)} rows)")
        bad_model = sorted(k for k, m in tables[matched].items() if not m["ok"])
        bad_real = sorted(k for k, r in real.items() if r["violations"])
        if bad_model != bad_real:
            raise MachineryError(f"identified mechanism predicts {len(bad_model)} failing rows, the real code fails on {len(bad_real)}")
        ctx.coverage["rows_failing_model_and_real"] = len(bad_real)

    # ---- (3a) random floats for the tolerance floor
    import logging

    from emu_mps import MPSConfig
    from pulser.backend import Occupation

    rng = ctx.rng
    n = ctx.pick(250, 6000)
    worst = math.inf
    # extreme values: a product that is exactly zero (a zero factor, or underflow) or denormal must be floored like any other
    extremes = [(1e-8, 0.0), (1e-5, 0.0), (1e-200, 1e-200), (1e-160, 1e-165), (5e-324, 1.0), (1e-3, 5e-324), (1e-300, 1e-10), (0.0, 1e-3), (0.0, 0.0),
                (1e-12, 1.0), (1.0, 1e-12), (1e-6, 1e-6 * (1 - 2.0 ** -53))]
    for i in range(n + len(extremes)):
        precision = 10.0 ** rng.uniform(-15, -2)
        extra = 10.0 ** rng.uniform(-13, 2)
        if rng.random() < 0.3:       # aim at the boundary
            extra = MIN_TOL / precision * rng.choice([1.0, 1 - 2.0 ** -52, 1 + 2.0 ** -52, 0.999999, 1.000001, 0.5, 2.0])
        if i >= n:
            precision, extra = extremes[i - n]
        try:
            cfg = MPSConfig(precision=precision, extra_krylov_tolerance=extra, observables=[Occupation(evaluation_times=[1.0])], log_level=logging.CRITICAL)
        except Exception as ex:
            ctx.notes.append(f"MPSConfig(precision={precision}, extra_krylov_tolerance={extra}) raised {type(ex).__name__}")
            continue
        prod = float(cfg.precision * cfg.extra_krylov_tolerance)
        worst = min(worst, prod / MIN_TOL)
        ctx.case(("rand", i), nontrivial=precision * extra < MIN_TOL)
        if not (prod >= MIN_TOL * ULP_SLACK):
            ctx.violation("config:krylov-tolerance-below-1e-12", f"precision*extra_krylov_tolerance = {prod!r} < 1e-12 after construction",
                          {"precision": precision, "extra_krylov_tolerance": extra, "constructed_extra": float(cfg.extra_krylov_tolerance)})
    ctx.coverage["random_tolerance_pairs"] = n
    ctx.coverage["smallest_product_over_1e-12"] = worst
    # ---- (3b) tolerance at the point of use
    cases = [{"precision": 1e-8, "extra": 1e-7}, {"precision": 1e-13, "extra": 1e-3}]
    if not ctx.quick:
        cases += [{"precision": 1e-6, "extra": 1e-9}, {"precision": 1e-10, "extra": 1e-2 * (1 - 1e-9)}, {"precision": 3e-7, "extra": 1e-6}, {"precision": 1e-5, "extra": 1e-3}]
    for r in pmap(run_tolerance_at_point_of_use, cases):
        if "raised" in r:
            ctx.notes.append(f"point-of-use run {r['case']} raised {r['raised']}")
            continue
        if not r["n_exp"]:
            raise MachineryError("no kry_exit hook events in a TDVP run (hook missing)")
        ctx.case(("use", json.dumps(r["case"])), sample=r)
        ctx.traces_validated += 1
        if not (r["min_tol"] >= MIN_TOL * ULP_SLACK):
            ctx.violation("run:krylov-tolerance-used-below-1e-12", f"a Krylov exponentiation was run with tolerance {r['min_tol']!r} < 1e-12", r)
    ctx.coverage["rule"] = ("one case per TLC-enumerated configuration row (precision exponent, extra exponent, autosave_dt, observable set, reordering, solver, noise class) instantiated on the real MPSConfig + create_impl; "
                            "random: one case per float pair, non-trivial when the requested product is below 1e-12; point-of-use: one case per real TDVP run")
    ctx.coverage["exhaustive"] = True
    ctx.coverage["distinct_violation_keys"] = sorted(set(ctx.violation_keys))
