"""C24 - noise-model channels act on the intended atomic levels.

(1) TLC: NoiseChannels.tla.  Mechanism = get_lindblad_operators branch by branch (index matrices in the
    emulator's order, the 2x2 block flip for 'ising' eff_noise); requirement = Pulser's definition of
    each channel on NAMED levels; equality = equality of dissipators on every matrix unit.  TLC
    enumerates every case (basis x dim x channel x rate, eff_noise: every matrix unit and every
    polarisation pair) and decides which ones the mechanism gets wrong.
(2) Binding A: every TLC case is instantiated on the real code: real NoiseModel -> real PulserData
    (real sequence of that basis) -> lindblad_ops.  The REQUIREMENT is evaluated on the real
    operators against Pulser's own collapse operators (HamiltonianData.lindblad_data /
    _build_local_collapse_operators) carried to the emulator's level order; the real index matrices
    are also compared with the model's (mechanism identification; a mismatch is model drift).
(3) Random noise models (all channels together, random complex operators / rates) - same oracle.
"""
from __future__ import annotations

import itertools
import json
import logging

import numpy as np

from harness.core import Ctx, MachineryError
from harness.tlc import printed_tuples, run_tlc

A0 = 0.2            # real amplitude per model amplitude unit  (rates scale with A0**2)
R0 = A0 * A0
TOL = 1e-10

# named mechanism variants of NoiseChannels.tla (FlipKind, DephKind), tried in this order
VARIANTS = {
    "block2flip_dephasing_repaired": ("block2", "sigmaz2_projector3"),   # HEAD since 1efe2df: eff_noise 2x2 block flip as found, dephasing repaired
    "fully_repaired": ("perm", "sigmaz2_projector3"),                    # full relabelling of eff_noise + repaired dephasing
    "as_found_round0": ("block2", "sigmaz"),                             # the tree before 1efe2df
    "perm_sigmaz": ("perm", "sigmaz"),
    "block2_projector": ("block2", "projector"),
    "intended_pulser_form": ("perm", "projector"),
}
INVS = ["IntendedLevels", "RelaxationIsRtoG", "RateAsSqrt", "TwoLevelIntended"]


def cfg_text(flip: str, deph: str, amps: str, weights: str, log: bool) -> str:
    t = f"""SPECIFICATION Spec
CONSTANTS
  Amps <- {amps}
  PairWeights <- {weights}
  FlipKind = "{flip}"
  DephKind = "{deph}"
"""
    if log:
        t += "ACTION_CONSTRAINT LogMap\n"
    else:
        t += "".join(f"INVARIANT {i}\n" for i in INVS)
    return t


# ------------------------------------------------------------------------------------ real side
_SEQ = {}


def _sequence(basis: str):
    from harness.gen import seqs

    if basis not in _SEQ:
        amp = {"k": "const", "d": 20, "v": 3.0}
        det = {"k": "const", "d": 20, "v": 0.0}
        ch = {"ising": {"ryd": "rydberg_global"}, "XY": {"mw": "mw_global"}}[basis]
        name = list(ch)[0]
        _SEQ[basis] = seqs.build_sequence({
            "coords": [[0.0, 0.0], [9.0, 0.0]], "channels": ch,
            "ops": [{"op": "add", "ch": name, "pulse": {"amp": amp, "det": det, "phase": 0.0}}]})
    return _SEQ[basis]


def _noise_model(basis: str, dim: int, channels: dict):
    """channels: {'relaxation': rate, 'dephasing': rate, 'depolarizing': rate, 'eff_noise': [(rate, matrix), ...]}"""
    from pulser import NoiseModel

    kw = {}
    if "relaxation" in channels:
        kw["relaxation_rate"] = channels["relaxation"]
    if "dephasing" in channels:
        kw["dephasing_rate"] = channels["dephasing"]
    if "depolarizing" in channels:
        kw["depolarizing_rate"] = channels["depolarizing"]
    eff = list(channels.get("eff_noise", []))
    if dim == 3 and not eff:
        eff = [(1.0, np.zeros((3, 3), dtype=complex))]      # leakage needs an eff_noise entry; zero operator = no process
    if eff:
        kw["eff_noise_rates"] = [float(r) for r, _ in eff]
        kw["eff_noise_opers"] = [np.asarray(m, dtype=complex) for _, m in eff]
    if dim == 3:
        kw["with_leakage"] = True
    return NoiseModel(**kw)


class _LD:
    def __init__(self, ops, paulis):
        self.local_collapse_ops = ops
        self.depolarizing_pauli_2ds = paulis


def evaluate(basis: str, dim: int, channels: dict) -> dict:
    """Instantiate on the real code; returns distances (requirement) and the real index matrices."""
    from emu_base import PulserData
    from emu_base.jump_lindblad_operators import get_lindblad_operators
    from emu_mps import MPSConfig
    from harness.ref import noise_ref as nr

    nm = _noise_model(basis, dim, channels)
    out: dict = {"basis": basis, "dim": dim, "noise_types": list(nm.noise_types)}
    try:
        pd = PulserData(sequence=_sequence(basis), config=MPSConfig(noise_model=nm, log_level=logging.ERROR), dt=10)
    except Exception as ex:  # the emulator refuses this noise model: nothing to compare
        out["rejected"] = f"{type(ex).__name__}: {ex}"
        return out
    eig = list(pd.eigenstates)
    int_type = pd.hamiltonian.basis_data.interaction_type
    out["eigenbasis"] = eig
    if int_type != basis or len(eig) != dim or pd.dim != dim:
        raise MachineryError(f"scenario does not have the intended basis/dim: {int_type} {eig} vs {basis} {dim}")
    real = [np.asarray(t.detach().cpu().resolve_conj().numpy(), dtype=complex) for t in pd.lindblad_ops]
    out["real_ops"] = real
    ref = [nr.to_emu(m, eig, int_type) for m in nr.pulser_collapse_ops(pd.hamiltonian.lindblad_data, eig)]
    scale = max([1e-300] + [float(np.abs(m).max()) ** 2 for m in ref + real])
    d, where = nr.channel_distance(real, ref, dim)
    lev = nr.emu_levels(eig, int_type)
    out["total"] = {"dist": d, "rel": d / scale, "where": [lev[i] for i in where]}
    out["levels"] = lev
    # per channel (names the failing channel)
    out["per_type"] = {}
    hd = pd.hamiltonian
    names = hd._get_projectors(eig)
    for t in nm.noise_types:
        if t not in ("relaxation", "dephasing", "depolarizing", "eff_noise"):
            continue
        sub = {t: channels[t]} if t in channels else {"eff_noise": []}
        if t == "eff_noise" and "eff_noise" not in channels:
            continue
        nm_t = _noise_model(basis, 2 if t != "eff_noise" else dim, sub)
        ops_p, paulis = hd._build_local_collapse_operators(nm_t, hd.basis_data.basis_name, eig, names)
        ref_t = [nr.to_emu(m, eig, int_type) for m in nr.pulser_collapse_ops(_LD(ops_p, paulis), eig)]
        try:
            emu_t = [np.asarray(x.detach().cpu().resolve_conj().numpy(), dtype=complex)
                     for x in get_lindblad_operators(noise_type=t, noise_model=nm, interact_type=int_type, dim=dim)]
        except Exception as ex:
            out["per_type"][t] = {"raised": f"{type(ex).__name__}: {ex}"}
            continue
        sc = max([1e-300] + [float(np.abs(m).max()) ** 2 for m in ref_t + emu_t])
        dt_, wh = nr.channel_distance(emu_t, ref_t, dim)
        out["per_type"][t] = {"dist": dt_, "rel": dt_ / sc, "where": [lev[i] for i in wh]}
    return out


def report(ctx: Ctx, res: dict, replay: dict) -> bool:
    """Raise violations for a real evaluation; returns True when the requirement holds."""
    ok = True
    if "rejected" in res:
        return True
    basis, dim = res["basis"], res["dim"]
    for t, r in res["per_type"].items():
        if "raised" in r:
            continue
        ctx.coverage["worst_rel_distance_ok"] = max(ctx.coverage.get("worst_rel_distance_ok", 0.0), r["rel"] if r["rel"] <= TOL else 0.0)
        if r["rel"] > TOL:
            ok = False
            m, n, p, q = r["where"]
            ctx.violation(
                f"lindblad:{t}:{basis}:dim{dim}",
                f"{t} channel ({basis}, {dim} levels): dissipator of the emulator's jump operators differs from Pulser's definition "
                f"(relative {r['rel']:.3g}; largest at D(|{p}><{q}|)[{m},{n}])",
                {**replay, "per_type": res["per_type"], "levels_emulator_order": res["levels"],
                 "emulator_ops": res["real_ops"]})
    if res["total"]["rel"] > TOL and ok:
        ok = False
        ctx.violation(
            f"lindblad:total:{basis}:dim{dim}",
            f"all channels together ({basis}, {dim} levels): SequenceData.lindblad_ops is not Pulser's channel although each channel is (relative {res['total']['rel']:.3g})",
            {**replay, "total": res["total"], "emulator_ops": res["real_ops"]})
    return ok


# ------------------------------------------------------------------------------------ model <-> real
def case_channels(c: dict) -> dict:
    s = c["s"]
    if c["noise"] == "relaxation":
        return {"relaxation": s * s * R0}
    if c["noise"] == "dephasing":
        return {"dephasing": 2 * s * s * R0}
    if c["noise"] == "depolarizing":
        return {"depolarizing": 4 * s * s * R0}
    m = np.zeros((c["dim"], c["dim"]), dtype=complex)
    for i, j, w in c["user"]:
        m[i - 1, j - 1] += complex(w[0], w[1])
    return {"eff_noise": [(s * s * R0, m)]}


def model_named(code: list) -> list[dict]:
    out = []
    for f in code:
        d = {}
        for k, v in f["__fn__"].items():
            a, b = json.loads(k)
            d[(a, b)] = complex(v[0], v[1])
        out.append(d)
    return out


def real_named(res: dict) -> list[dict]:
    lev = res["levels"]
    out = []
    for m in res["real_ops"]:
        if np.abs(m).max() == 0.0:
            continue
        out.append({(lev[i], lev[j]): complex(m[i, j]) / A0 for i in range(len(lev)) for j in range(len(lev))})
    return out


def same_ops(a: list[dict], b: list[dict]) -> bool:
    if len(a) != len(b):
        return False
    return all(all(abs(x[k] - y.get(k, 0)) < 1e-9 for k in x) for x, y in zip(a, b))


def run(ctx: Ctx) -> None:
    ctx.level = "model_checking"
    ctx.assumptions += [
        "Pulser's collapse operators (HamiltonianData.lindblad_data / _build_local_collapse_operators, pulser-core) define the intended channel; "
        "'sigma_ab' means |a><b| (pulser-simulation's construction; NoiseModel documents relaxation as the decay r->g = sigma_gr); user matrices are in Pulser's eigenbasis order (r,g[,x]) / (u,d[,x])",
        "the emulators' level order is (g,r[,x]) for ground-rydberg and (u,d[,x]) for XY: index 1 is the level reported as '1' / occupied (pulser State.infer_one_state gives r resp. d), index 2 the leakage level",
        "equality of channels = equality of dissipators on all matrix units (tolerance 1e-10 relative); a Hamiltonian-like shift L -> L + c*1 is therefore NOT accepted as the same channel",
        "exhaustive over the model's case set only (rates enter through exact squares); arbitrary complex operators are covered by linearity (units + polarisation pairs) and by the random tier",
        "TLC, numpy",
    ]
    amps = ctx.pick("cAmps2", "cAmps3")
    weights = "cWeights"
    # ---- (1) TLC tables (verdict of the model for every case), one per named mechanism variant, lazily
    tables = {}

    def model_table(vname: str) -> dict:
        if vname in tables:
            return tables[vname]
        flip, deph = VARIANTS[vname]
        log = run_tlc("MCNoiseChannels", None, workdir=ctx.work, name=f"log_{vname}", cfg_text=cfg_text(flip, deph, amps, weights, True), workers=4, coverage=True)
        ctx.add_tlc(log)
        rows = printed_tuples(log["out"], "CASE")
        if not rows:
            raise MachineryError("TLC printed no cases")
        acts = [a for a in (log.get("coverage_zero") or []) if a.startswith("Map")]
        if acts:
            raise MachineryError(f"spec actions never taken: {acts}")
        bad = [r[1] for r in rows if r[3] is False]
        classes = sorted({f"{c['noise']}:{c['basis']}:dim{c['dim']}" for c in bad})
        tables[vname] = {"rows": rows, "n_bad": len(bad), "bad_classes": classes}
        ctx.log(f"model {vname} {VARIANTS[vname]}: {len(rows)} cases, requirement fails on {len(bad)} {classes}")
        return tables[vname]

    first_name = next(iter(VARIANTS))
    # the intended mechanism must satisfy the requirement, otherwise the specification is inconsistent
    res2 = run_tlc("MCNoiseChannels", None, workdir=ctx.work, name="mc_intended", cfg_text=cfg_text(*VARIANTS["intended_pulser_form"], amps, weights, False), workers=4)
    ctx.add_tlc(res2)
    if res2["violated"]:
        raise MachineryError("the intended mechanism (full relabelling, Pulser's dephasing form) does not satisfy the requirement in the model: specification inconsistent")

    # ---- (2) binding A: every case on the real code
    rows0 = model_table(first_name)["rows"]
    real = {}
    n_fail = 0
    real_bad_classes = set()
    for r in rows0:
        c = r[1]
        key = json.dumps([c["basis"], c["dim"], c["noise"], c["s"], c["user"]])
        ch = case_channels(c)
        ev = evaluate(c["basis"], c["dim"], ch)
        real[key] = ev
        replay = {"case": c, "basis": c["basis"], "dim": c["dim"], "channels": ch, "how": "harness.drivers.C24.evaluate(basis, dim, channels)"}
        ok = report(ctx, ev, replay)
        if not ok:
            n_fail += 1
            real_bad_classes.add(f"{c['noise']}:{c['basis']}:dim{c['dim']}")
        ctx.case(("tlc", key), nontrivial="rejected" not in ev,
                 sample={"case": c, "requirement_holds_on_real_code": ok, "per_type": ev.get("per_type"), "emulator_levels": ev.get("levels")})
        ctx.traces_validated += 1
    ctx.log(f"binding A: {len(rows0)} TLC cases instantiated on the real code, requirement fails on {n_fail} {sorted(real_bad_classes)}")
    # mechanism identification
    matched = None
    first_diff = None
    for vname in VARIANTS:
        t = model_table(vname)
        agree_ops = agree_verdict = True
        first = None
        for r in t["rows"]:
            c = r[1]
            key = json.dumps([c["basis"], c["dim"], c["noise"], c["s"], c["user"]])
            ev = real[key]
            if "rejected" in ev:
                agree_ops = False
                first = first or (c, "real code rejects")
                continue
            real_ok = ev["total"]["rel"] <= TOL and all(x.get("rel", 0) <= TOL for x in ev["per_type"].values())
            if real_ok != r[3]:
                agree_verdict = False
                first = first or (c, f"verdict model={r[3]} real={real_ok}")
            if not same_ops(model_named(r[2]), real_named(ev)):
                agree_ops = False
                first = first or (c, "operator entries differ")
        t["agree_ops"], t["agree_verdict"], t["first_diff"] = agree_ops, agree_verdict, first
        if vname == first_name:
            first_diff = first
        if agree_ops and agree_verdict:
            matched = vname
            break
    ctx.coverage["mechanism_identified"] = None if matched is None else {"name": matched, "FlipKind": VARIANTS[matched][0], "DephKind": VARIANTS[matched][1]}
    ctx.coverage["binding_A"] = {k: {"ops_equal": v["agree_ops"], "verdicts_equal": v["agree_verdict"]} for k, v in tables.items() if "agree_ops" in v}
    mc_name = matched or first_name
    res = run_tlc("MCNoiseChannels", None, workdir=ctx.work, name=f"mc_{mc_name}", cfg_text=cfg_text(*VARIANTS[mc_name], amps, weights, False), workers=4)
    ctx.add_tlc(res)
    tm = tables[mc_name]
    if bool(tm["n_bad"]) != bool(res["violated"]):
        raise MachineryError(f"TLC invariant result {res['violated']} inconsistent with logged verdicts ({tm['n_bad']} bad)")
    ctx.log(f"TLC, mechanism {mc_name}: invariants violated: {[v[1] for v in res['violated']]}; predicted failing classes {tm['bad_classes']}")
    ctx.coverage["model_verdicts"] = {mc_name: {"cases": len(tm["rows"]), "requirement_fails": tm["n_bad"], "failing_classes": tm["bad_classes"],
                                                "invariants_violated": [x[1] for x in res["violated"]]},
                                      "intended_pulser_form": {"invariants_violated": []}}
    if matched is None:
        ctx.model_drift(f"no mechanism variant of NoiseChannels.tla reproduces get_lindblad_operators on all cases; variant {first_name} first differs at {first_diff}")
    else:
        ctx.log(f"mechanism identified: {matched} {VARIANTS[matched]} (operator entries and verdicts equal on all {len(rows0)} cases)")
        if tm["bad_classes"] != sorted(real_bad_classes) or tm["n_bad"] != n_fail:
            raise MachineryError(f"model predicts failing classes {tm['bad_classes']} ({tm['n_bad']} cases), real code fails on {sorted(real_bad_classes)} ({n_fail} cases) although the mechanism matches")

    # ---- (3) random noise models
    rng = np.random.default_rng(ctx.seed + 24)
    n = ctx.pick(150, 2500)
    nrand_fail = 0
    for k in range(n):
        basis = ["ising", "XY"][int(rng.integers(2))]
        dim = int(rng.integers(2, 4))
        ch: dict = {}
        kinds = ["dephasing", "depolarizing", "eff_noise"] + (["relaxation"] if basis == "ising" else [])
        for t in kinds:
            if rng.random() < 0.5:
                if t == "eff_noise":
                    ops = []
                    for _ in range(int(rng.integers(1, 4))):
                        style = rng.random()
                        m = rng.normal(size=(dim, dim)) + 1j * rng.normal(size=(dim, dim))
                        if style < 0.4:  # sparse: a couple of transitions
                            mask = rng.random((dim, dim)) < 0.25
                            m = m * mask
                        elif style < 0.6:
                            m = np.real(m)
                        ops.append((float(rng.choice([0.0, 0.01, 0.3, 2.0, 10.0 ** rng.uniform(-3, 1)])), m))
                    ch[t] = ops
                else:
                    ch[t] = float(10.0 ** rng.uniform(-3, 1))
        if not ch:
            ch = {"dephasing": 0.1}
        ev = evaluate(basis, dim, ch)
        ok = report(ctx, ev, {"basis": basis, "dim": dim, "channels": ch, "how": "harness.drivers.C24.evaluate(basis, dim, channels)"})
        nrand_fail += 0 if ok else 1
        ctx.case(("rand", basis, dim, sorted(ch), k), nontrivial="rejected" not in ev)
    ctx.log(f"random noise models: {n}, requirement fails on {nrand_fail}")
    ctx.coverage["random_models"] = n
    ctx.coverage["rule"] = ("model: every (basis, dim, channel, amplitude) and for eff_noise every matrix unit and ordered pair E_ij + w E_kl (w in {1, i}) of the user matrix, "
                            "each instantiated on the real code (distinct by case); random: one case per random NoiseModel (distinct by draw); non-trivial = the emulator produced operators")
    ctx.coverage["exhaustive"] = True
    ctx.coverage["distinct_violation_keys"] = sorted(set(ctx.violation_keys))
