"""Instantiation of EmuPipeline.tla dispatch rows on the real backends (used by C04 and C33).

A row = {backend, basis, lind, stoch, solver, init, n}.  `run_row` builds a real 1-2 atom, 48 ns
sequence of that basis, a real NoiseModel with the row's noise types (rates so small that the
noiseless Hamiltonian evolution is the reference within the tolerance), runs the real backend and
classifies the outcome:  exception (class, message)  |  Results (occupation at the end, compared
with the dense reference for the Hamiltonian Pulser defines for that basis and the requested solver).
Module-level functions only (spawned pool workers import them).  Never edits /repo.
"""
from __future__ import annotations

import logging
from typing import Any

import numpy as np

TINY = 1e-7
DUR = 48
OMEGA = 12.0
SPACING = 6.0
TOL = {"sv": 2e-5, "mps": 4e-3}


def seq_spec(basis: str, n: int) -> dict:
    amp = {"k": "const", "d": DUR, "v": OMEGA}
    det = {"k": "const", "d": DUR, "v": 0.0}
    coords = [[i * SPACING, 0.0] for i in range(n)]
    chans = {"gr": {"ryd": "rydberg_global"}, "xy": {"mw": "mw_global"}, "digital": {"ram": "raman_global"},
             "mixed": {"ryd": "rydberg_global", "ram": "raman_global"}}[basis]
    ops = [{"op": "add", "ch": name, "pulse": {"amp": amp, "det": det, "phase": 0.0}} for name in chans]
    return {"coords": coords, "channels": chans, "ops": ops}


def noise_kwargs(lind: str, stoch: str) -> dict:
    kw: dict[str, Any] = {}
    if lind == "relaxation":
        kw["relaxation_rate"] = TINY
    elif lind == "dephasing":
        kw["dephasing_rate"] = TINY
    elif lind == "hyperfine":
        kw["dephasing_rate"] = TINY
        kw["hyperfine_dephasing_rate"] = TINY
    elif lind == "depolarizing":
        kw["depolarizing_rate"] = TINY
    elif lind == "eff2":
        kw["eff_noise_rates"] = [TINY]
        kw["eff_noise_opers"] = [np.array([[0.0, 1.0], [0.0, 0.0]])]
    elif lind in ("leak3", "leak3deph"):
        m = np.zeros((3, 3))
        m[2, 0] = 1.0
        kw["eff_noise_rates"] = [TINY]
        kw["eff_noise_opers"] = [m]
        kw["with_leakage"] = True
        if lind == "leak3deph":
            kw["dephasing_rate"] = TINY
    elif lind != "none":
        raise ValueError(lind)
    if stoch == "spam_prep":
        kw["state_prep_error"] = 1e-9
    elif stoch == "spam_meas":
        kw["p_false_pos"] = 1e-9
    elif stoch == "amplitude":
        kw["amp_sigma"] = TINY
    elif stoch == "detuning":
        kw["detuning_sigma"] = TINY
    elif stoch == "register":
        kw.update(temperature=1e-6, trap_waist=1.0, trap_depth=150.0, disable_doppler=True)
    elif stoch == "doppler":
        kw["temperature"] = 1e-6
    elif stoch != "none":
        raise ValueError(stoch)
    return kw


def reference(row: dict, seq) -> dict:
    """Occupation at the end for the Hamiltonian Pulser defines for the row's basis (None if the
    basis is one no emulator implements), for time evolution and for the ground state."""
    from harness.gen import seqs
    from harness.ref import dense

    n = row["n"]
    if row["basis"] not in ("gr", "xy"):
        return {"kind": None}
    kind = "rydberg" if row["basis"] == "gr" else "xy"
    local, _basis, duration = seqs.pulser_local_samples(seq)
    qids = list(seq.register.qubit_ids)
    tt = seqs.ref_target_times(duration, 12.0, [1.0])
    om, de, ph = seqs.ref_rows(local, qids, tt, duration)
    U = {k: seqs.ref_interaction(seq, k) for k in ("rydberg", "xy")}
    psi0 = dense.basis_state([1] + [0] * (n - 1)) if row["init"] else None
    out: dict = {"kind": kind}
    for k in ("rydberg", "xy"):
        states, hams = seqs.ref_unitary_run(om, de, ph, tt, lambda _k, k=k: U[k], psi0=psi0, kind=k)
        out[f"evolve_{k}"] = dense.occupation(states[-1], n)
        w, v = np.linalg.eigh(hams[-1])
        out[f"ground_{k}"] = dense.occupation(v[:, 0], n)
        out[f"gap_{k}"] = float(w[1] - w[0]) if len(w) > 1 else 1.0
    return out


def scenario(row: dict):
    """Pulser-only part (harness side): sequence and noise model.  Must not fail."""
    import pulser

    from harness.gen import seqs

    seq = seqs.build_sequence(seq_spec(row["basis"], row["n"]))
    kw = noise_kwargs(row["lind"], row["stoch"])
    nm = pulser.NoiseModel(**kw) if kw else None
    return seq, nm


def build(row: dict, seq, nm):
    """Code under test: configuration, initial state, backend object."""
    from pulser.backend import Occupation

    obs = [Occupation(evaluation_times=[1.0])]
    n = row["n"]
    common: dict[str, Any] = {"dt": 12.0, "observables": obs, "log_level": logging.ERROR}
    if nm is not None:
        common["noise_model"] = nm
    dim = 3 if row["lind"] in ("leak3", "leak3deph") else 2
    if row["backend"] == "sv":
        import torch
        from emu_sv import StateVector, SVBackend, SVConfig

        if row["init"]:
            v = torch.zeros(2 ** n, dtype=torch.complex128)
            v[2 ** (n - 1)] = 1.0                      # |1 0 ... 0>  (atom 0 most significant)
            common["initial_state"] = StateVector(v, gpu=False)
        cfg = SVConfig(gpu=False, **common)
        return SVBackend(seq, config=cfg)
    import torch
    from emu_mps import MPS, MPSBackend, MPSConfig, Solver

    if row["init"]:
        eig = {"gr": ("r", "g"), "xy": ("u", "d"), "digital": ("g", "h"), "mixed": ("r", "g", "h")}[row["basis"]]
        if dim == 3:
            eig = eig + ("x",)
        d = len(eig)
        fs = []
        for i in range(n):
            f = torch.zeros(1, d, 1, dtype=torch.complex128)
            f[0, 1 if i == 0 else 0, 0] = 1.0
            fs.append(f)
        common["initial_state"] = MPS(fs, eigenstates=eig, num_gpus_to_use=0)
    cfg = MPSConfig(num_gpus_to_use=0, solver=(row["solver"] if (row["n"] + len(row["lind"]) + len(row["stoch"])) % 2 == 0 and row["solver"] in ("dmrg", "tdvp") else (Solver.DMRG if row["solver"] == "dmrg" else Solver.TDVP)), **common)
    return MPSBackend(seq, config=cfg)


def run_row(row: dict) -> dict:
    import warnings

    warnings.filterwarnings("ignore")
    logging.getLogger("emulators").setLevel(logging.ERROR)
    out: dict = {"row": row}
    from emu_base import _verif

    ev: list = []
    _verif.set_sink(ev)
    import contextlib
    import io

    try:
        seq, nm = scenario(row)
    except Exception as ex:
        out["outcome"] = "raise"
        out["harness_error"] = f"{type(ex).__name__}: {ex}"
        _verif.set_sink(None)
        return out
    try:
        with contextlib.redirect_stdout(io.StringIO()):
            backend = build(row, seq, nm)
            out["stage"] = "run"
            res = backend.run()
    except BaseException as ex:  # noqa: BLE001 - the outcome class is the datum
        if isinstance(ex, (KeyboardInterrupt, SystemExit)):
            raise
        out["outcome"] = "raise"
        out["exc"] = type(ex).__name__
        out["msg"] = str(ex)[:200]
        out["stage"] = out.get("stage", "build")
        out["impl"] = next((e.get("cls") for e in ev if e["ev"] == "mps_new"), None)
        _verif.set_sink(None)
        return out
    _verif.set_sink(None)
    out["outcome"] = "results"
    out["impl"] = next((e.get("cls") for e in ev if e["ev"] == "mps_new"), None) or next((e.get("stepper") for e in ev if e["ev"] == "sv_new"), None)
    try:
        occ = np.asarray(res.occupation[-1].detach().cpu().numpy(), dtype=float)
        out["occ"] = occ.tolist()
    except Exception as ex:  # results without the requested observable
        out["occ"] = None
        out["occ_error"] = f"{type(ex).__name__}: {ex}"
    try:
        ref = reference(row, seq)
    except Exception as ex:
        out["ref_error"] = f"{type(ex).__name__}: {ex}"
        return out
    out["ref"] = {k: (v.tolist() if hasattr(v, "tolist") else v) for k, v in ref.items()}
    return out
