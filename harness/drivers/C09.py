"""C09 - the DMRG solver finds the ground state of the final Hamiltonian.

(1) TLC: MPSRun.tla in DMRG mode (minimisation sweeps left-to-right / right-to-left, bath stacks, centre,
    convergence decided by the environment, restart, raise after MaxSweeps, no fill before convergence).
(2) Binding B: hook traces of real DMRG runs (2-8 atoms, constant and adiabatic ramps, dt, precision, bond
    cap) validated by MPSRunTrace.tla with numeric atoms from dense diagonalisation of every step's
    Hamiltonian (built from the emitted rows): every local minimisation energy and every reported energy is
    >= E0 - rounding; on gapped steps |E - E0| <= 10*energy_tolerance + 20(N-1)*precision^2*(spectral range); the returned
    state is normalised and canonical around its declared centre.
"""
from __future__ import annotations

from harness.core import Ctx
from harness.drivers.C02 import evaluate, model
from harness.gen import seqs
from harness.mpsrun import mps_worker
from harness.pool import pmap


def make_jobs(ctx: Ctx, count: int) -> list[dict]:
    rng = ctx.rng
    jobs = []
    for i in range(count):
        n = rng.choice([2, 3, 3, 4, 5] + ([] if ctx.quick else [6, 7, 8]))
        duration = rng.choice([40, 60, 100])
        style = ["constant", "adiabatic", "adiabatic", "blackman"][i % 4]
        layout = rng.choice(["line", "ring", "zigzag"]) if n > 2 else "line"
        spacing = rng.uniform(5.5, 8.0)
        om = rng.uniform(2.0, 10.0)
        if style == "constant":
            amp = {"k": "const", "d": duration, "v": om}
            det = {"k": "const", "d": duration, "v": rng.uniform(-6.0, 12.0)}
        elif style == "adiabatic":
            amp = {"k": "interp", "d": duration, "values": [1e-9, om, om, 1e-9] if i % 8 < 4 else [0.5 * om, om, om]}
            det = {"k": "ramp", "d": duration, "v0": -rng.uniform(2.0, 10.0), "v1": rng.uniform(2.0, 15.0)}
        else:
            amp = {"k": "blackman", "d": duration, "area": rng.uniform(1.0, 4.0)}
            det = {"k": "ramp", "d": duration, "v0": -rng.uniform(0.0, 6.0), "v1": rng.uniform(0.0, 10.0)}
        spec = seqs.simple_spec(n, layout, spacing, amp, det, phase=rng.choice([0.0, 0.0, 0.7]))
        dt = float(rng.choice([10, 20, duration // 2]))
        times = sorted({0.5, 1.0} | ({0.25} if i % 2 else set()))
        prec = rng.choice([1e-5, 1e-7, 1e-9])
        jobs.append({
            "id": i + 1, "seq": spec, "dt": dt, "precision": prec, "max_bond_dim": rng.choice([1024, 1024, 8]), "reorder": False, "solver": "dmrg",
            "obs": [{"k": "energy", "times": times}, {"k": "state", "times": times}, {"k": "occupation", "times": times}], "default_times": None,
            "modulation": False, "kind": "rydberg", "seed": ctx.seed * 100003 + i, "init": None,
            "strata": {"n": n, "style": style, "layout": layout, "dt": dt, "prec": prec},
        })
    # cold starts that need many sweeps: strongly interacting rings, constant drive, read at the FIRST step
    # (a solver that stops sweeping too early is still exact on small or warm-started problems)
    for k, (n, spacing, om, de) in enumerate([(8, 5.0, 2.0, 15.0), (8, 6.0, 6.283, 15.0), (7, 5.0, 3.0, 12.0)][: (2 if ctx.quick else 3)]):
        duration = 100
        spec = seqs.simple_spec(n, "ring", spacing, {"k": "const", "d": duration, "v": om}, {"k": "const", "d": duration, "v": de})
        times = [0.1, 0.5, 1.0]
        jobs.append({
            "id": count + k + 1, "seq": spec, "dt": 10.0, "precision": [1e-5, 1e-7][k % 2], "max_bond_dim": 1024, "reorder": k % 3 != 2, "solver": "dmrg",
            "obs": [{"k": "energy", "times": times}, {"k": "occupation", "times": times}], "default_times": None,
            "modulation": False, "kind": "rydberg", "seed": ctx.seed * 100003 + 900 + k, "init": None, "gap_factor": 3.0,
            "strata": {"n": n, "style": "cold-start-ring", "layout": "ring", "dt": 10.0, "prec": [1e-5, 1e-7][k % 2], "spacing": spacing},
        })
    # plateaus: consecutive constant pulses that differ in exactly ONE of amplitude / detuning / phase (everything else bit-identical):
    # a solver that skips work "because the drive did not change" must look at all three
    base = len(jobs)
    for k, which in enumerate(["phase", "det", "amp"] if ctx.quick else ["phase", "det", "amp", "phase", "det", "amp"]):
        n = [3, 4, 3, 5, 4, 3][k]
        d = 40
        om, de, ph = rng.uniform(3.0, 8.0), rng.uniform(2.0, 10.0), rng.choice([0.0, 0.4])
        om2, de2, ph2 = (om, de, ph + rng.uniform(1.0, 2.5)) if which == "phase" else (om, de + rng.uniform(3.0, 6.0), ph) if which == "det" else (om * 0.4, de, ph)
        spec = seqs.simple_spec(n, "line", rng.uniform(6.0, 7.5), {"k": "const", "d": d, "v": om}, {"k": "const", "d": d, "v": de}, phase=ph)
        spec["ops"].append({"op": "add", "ch": "ryd", "pulse": {"amp": {"k": "const", "d": d, "v": om2}, "det": {"k": "const", "d": d, "v": de2}, "phase": ph2}})
        times = [0.25, 0.5, 0.75, 1.0]
        jobs.append({
            "id": base + k + 1, "seq": spec, "dt": 10.0, "precision": 1e-7, "max_bond_dim": 1024, "reorder": k % 2 == 0, "solver": "dmrg",
            "obs": [{"k": "energy", "times": times}, {"k": "occupation", "times": times}], "default_times": None,
            "modulation": False, "kind": "rydberg", "seed": ctx.seed * 100003 + 950 + k, "init": None, "gap_factor": 3.0,
            "strata": {"n": n, "style": f"plateau-{which}-changes", "layout": "line", "dt": 10.0, "prec": 1e-7},
        })
    return jobs


def run(ctx: Ctx) -> None:
    ctx.level = "exploration"
    ctx.assumptions += [
        "reference: numpy eigvalsh of the dense Hamiltonian of every step built from the emitted rows and interaction matrix",
        "closeness is asserted only on steps whose reference gap exceeds 10x the budget (3x for the cold-start ring scenarios) 10*1e-5 + 2(N-1)*precision*||H||; a bond cap that binds can legitimately keep the energy above E0, so only the lower bound is asserted there",
    ]
    n = ctx.pick(40, 500)
    jobs = make_jobs(ctx, n)
    for j in jobs:
        if j["max_bond_dim"] < 1024:
            j["strata"]["capped"] = True
    results = pmap(mps_worker, jobs)
    # a binding bond cap voids the closeness claim: drop those 'why' entries that are closeness-only
    evaluate(ctx, jobs, results, "dmrg")
    ctx.coverage["gapped_steps_checked"] = sum(r.get("gapped", 0) for r in results)
    model(ctx, "dmrg")
    ctx.coverage["rule"] = "one case per scenario = (atoms, drive style, layout, dt, precision[, bond cap]); energies checked at every evaluation time and every local minimisation"
