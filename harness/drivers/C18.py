"""C18 - quantum-jump stepping completes every time step once, in order, and terminates.

(1) TLC: NoisyStep.tla (one action per branch of NoisyMPSBackendImpl.sweep_complete, root finder =
    BrentFn) against an adversarial squared-norm environment: StepsInOrderOnce, FillOnceInOrder,
    AllDueFilled, JumpInside, TimeInStep, TargetRestored, the root finder's precondition (Assert) and
    Termination under weak fairness.
(2) Binding A: TLC behaviours (-simulate) are replayed into the REAL NoisyMPSBackendImpl on a 2-atom
    system whose two-site evolution kernel is replaced by one that returns the TLC-chosen squared norm
    (everything else -- sweep_complete, BrentsRootFinder, do_random_quantum_jump, timestep_complete,
    fill_results -- is the real code).  Real control state is compared with the model state after
    every progress() (drift indicator) and the hook trace of the replay is validated by (3).
(3) Binding B: hook traces of replays and of ordinary real noisy runs (high rates, several jumps per
    step, dt from 0.5 to 50) are validated by NoisyStepTrace.tla (requirement-level).
"""
from __future__ import annotations

import math
from fractions import Fraction as F

from harness.core import Ctx, MachineryError
from harness.pool import pmap
from harness.tlc import printed_tuples, run_tlc
from harness.traces import rank_map, validate_batch

MODEL_CFGS = {
    # name: (K, L, Gaps, PosGaps, MaxJumps, Due)
    "k2l4": (2, 4, "cGaps4", "cPos2", 2, "cDueSome2"),
    "k2l8": (2, 8, "cGaps4", "cPos2", 2, "cDueAll2"),
    "k1l8g6": (1, 8, "cGaps6", "cPos3", 1, "cDueAll1"),   # more gap values, one jump per step (32-bit rationals overflow beyond)
    "k3l4": (3, 4, "cGaps4", "cPos2", 1, "cDueAll3"),
}
DUE = {"cDueAll2": [0, 1, 2], "cDueSome2": [0, 2], "cDueAll3": [0, 1, 2, 3], "cDue1": [1], "cDueAll1": [0, 1]}


def cfg_text(c, log=False, live=True) -> str:
    K, L, gaps, pos, mj, due = c
    t = f"""SPECIFICATION Spec
CONSTANTS
  K = {K}
  L = {L}
  Gaps <- {gaps}
  PosGaps <- {pos}
  MaxJumps = {mj}
  Due <- {due}
  LogTransitions = {"TRUE" if log else "FALSE"}
INVARIANT JumpInside
INVARIANT TimeInStep
INVARIANT TargetRestored
INVARIANT AllDueFilled
PROPERTY StepsInOrderOnce
PROPERTY FillOnceInOrder
"""
    if live:
        t += "PROPERTY Termination\n"
    if log:
        t += "ACTION_CONSTRAINT LogStep\n"
    return t


def fr(v) -> F:
    return F(v[0], v[1])


# ------------------------------------------------------------------ projection of hook events to a trace
def project(events: list[dict], tid: int, partial: bool = False) -> dict | None:
    new = [e for e in events if e["ev"] == "mps_new"]
    if not new:
        return None
    tt = new[0]["target_times"]
    times = list(tt)
    for e in events:
        if e["ev"] == "mps_sweep" and e.get("kind") == "noisy":
            times += [e["prev"], e["cur"], e["tgt"]] + [x for x in (e.get("a"), e.get("b")) if x is not None]
        elif e["ev"] in ("mps_fill",):
            times.append(e["cur"])
        elif e["ev"] == "mps_jump":
            times.append(e["t"])
        elif e["ev"] == "mps_step_done":
            times += [e["cur"], e["tgt"]]
    rk = rank_map([float(x) for x in times])
    R = lambda x: rk[float(x)]
    sg = lambda v: (v > 0) - (v < 0)
    out = [{"ev": "init", "K": len(tt) - 1, "T": [R(x) for x in tt]}]
    for e in events:
        k = e["ev"]
        if k == "mps_update_h":
            out.append({"ev": "h", "noisy": bool(e["noisy"])})
        elif k == "mps_fill":
            out.append({"ev": "fill", "t": R(e["cur"]), "ts": e["ts"]})
        elif k == "mps_thr":
            out.append({"ev": "thr", "sgap": sg(e["gap"])})
        elif k == "mps_sweep" and e.get("kind") == "noisy":
            a, b = e.get("a"), e.get("b")
            fa, fb = e.get("fa"), e.get("fb")
            if e["branch"] == "search_step":
                # signs at the bracket ends are not logged for intermediate steps: sign change is implied by the
                # real root finder's own bookkeeping; we log the product sign from the ordinates when available
                fa, fb = e.get("fa"), e.get("fb")
            out.append({
                "ev": "sweep", "branch": e["branch"], "prev": R(e["prev"]), "cur": R(e["cur"]), "tgt": R(e["tgt"]),
                "sprev": sg(e["prev_gap"]), "sgap": sg(e["gap"]), "ts": e["ts"],
                "a": R(a) if a is not None else -1, "b": R(b) if b is not None else -1,
                "sa": sg(fa) if fa is not None else 0, "sb": sg(fb) if fb is not None else 0,
                "widthOK": bool(a is not None and b is not None and abs(a - b) < 1),
            })
        elif k == "mps_jump":
            out.append({"ev": "jumpop", "t": R(e["t"]), "ts": e["ts"]})
        elif k == "mps_step_done":
            out.append({"ev": "done", "ts": e["ts"], "cur": R(e["cur"]), "tgt": R(e["tgt"]), "finished": bool(e["finished"])})
    return {"id": tid, "partial": partial, "events": out}


# ------------------------------------------------------------------ real runs (workers)
def _noisy_seq_data(n: int, duration: int, dt: float, rates: dict, due_fracs: list[float], seed: int):
    import pulser
    import torch
    from emu_base import PulserData
    from emu_mps import MPSConfig
    from harness.gen import seqs
    from harness.smallruns import observables, small_spec

    nm = pulser.NoiseModel(**rates)
    cfg = MPSConfig(dt=dt, log_level=100, noise_model=nm, observables=observables(["occupation"], due_fracs), optimize_qubit_ordering=False)
    seq = seqs.build_sequence(small_spec(n, duration, amp=8.0, det=1.0))
    data = next(iter(PulserData(sequence=seq, config=cfg, dt=dt).get_sequences()))
    return data, cfg


def real_run_worker(job: dict) -> dict:
    """An ordinary noisy emu-mps trajectory; returns hook events (control events only)."""
    import random
    import torch
    from emu_base import _verif
    from emu_mps import MPSBackend

    random.seed(job["seed"])
    torch.manual_seed(job["seed"])
    ev: list = []
    _verif.reset()
    _verif.set_sink(ev)
    err = None
    try:
        data, cfg = _noisy_seq_data(job["n"], job["duration"], job["dt"], job["rates"], job["due"], job["seed"])
        ev.clear()
        MPSBackend._run_from_sequence_data(data, cfg)
    except BaseException as e:  # noqa
        err = f"{type(e).__name__}: {e}"
    finally:
        _verif.set_sink(None)
    keep = {"mps_new", "mps_update_h", "mps_fill", "mps_thr", "mps_sweep", "mps_jump", "mps_step_done"}
    return {"job": job, "events": [e for e in ev if e["ev"] in keep], "error": err}


def replay_worker(job: dict) -> dict:
    """Replay one TLC behaviour into the real NoisyMPSBackendImpl with a scripted evolution kernel."""
    import random
    import torch
    import emu_mps.mps_backend_impl as impl_mod
    from emu_base import _verif
    from emu_mps.mps_backend_impl import create_impl, NoisyMPSBackendImpl

    K, L = job["K"], job["L"]
    script = list(job["script"])  # list of dicts: {"g": [n,d], "g2": [n,d] | None}
    init_gap = F(*job["init_gap"])
    ev: list = []
    _verif.reset()
    _verif.set_sink(ev)
    random.seed(7)
    torch.manual_seed(7)
    due = [F(i, K) for i in job["due"]]
    data, cfg = _noisy_seq_data(2, K * L, float(L), {"dephasing_rate": 0.2}, [float(x) for x in due], 7)
    ev.clear()
    state = {"want_norm2": None, "uniform": [], "impl": None, "default_g2": init_gap}
    orig_evolve_pair = impl_mod.evolve_pair
    orig_uniform = random.uniform

    def fake_evolve_pair(*, state_factors, orth_center_right, **kw):
        # adversarial kernel: returns the product state n*|g>|g> whose norm n is exactly the scripted one
        want = state["want_norm2"]
        n = math.sqrt(want)
        l = torch.zeros_like(state_factors[0][:1, :, :1])
        r = torch.zeros_like(state_factors[1][:1, :, :1])
        l[0, 0, 0] = 1.0
        r[0, 0, 0] = 1.0
        if orth_center_right:
            return l, n * r
        return n * l, r

    def fake_uniform(a, b):
        # threshold such that gap == bound - thr equals the scripted positive gap
        g2 = state["uniform"].pop(0) if state["uniform"] else state["default_g2"]
        return b - float(g2)

    impl_mod.evolve_pair = fake_evolve_pair
    random.uniform = fake_uniform
    drift = None
    err = None
    steps_done = 0
    snaps = []
    try:
        impl = create_impl(data, cfg)
        if not isinstance(impl, NoisyMPSBackendImpl):
            raise RuntimeError("create_impl did not build the noisy implementation")
        state["impl"] = impl
        state["uniform"].append(init_gap)
        impl.init()
        for i, st in enumerate(script):
            if impl.is_finished():
                drift = f"real run finished after {i} progress() calls, model behaviour has {len(script)}"
                break
            g = F(*st["g"])
            state["want_norm2"] = float(g) + impl.jump_threshold
            if state["want_norm2"] <= 0:
                raise RuntimeError("scripted norm not positive")
            if st.get("g2") is not None:
                state["uniform"].append(F(*st["g2"]))
            impl.progress()
            steps_done += 1
            m = st["post"]
            real = {
                "ts": impl._timestep_index, "cur": impl.current_time, "tgt": impl.target_time,
                "searching": impl.root_finder is not None, "gap": impl.norm_gap_before_jump,
            }
            snaps.append(real)
            mism = []
            if real["ts"] != m["ts"]:
                mism.append("ts")
            for kx in ("cur", "tgt", "gap"):
                mv = float(F(*m[kx]))
                if abs(real[kx] - mv) > 1e-9 * max(1.0, abs(mv)):
                    mism.append(kx)
            if real["searching"] != m["searching"]:
                mism.append("searching")
            if mism and drift is None:
                drift = f"after progress #{i + 1}: real {real} vs model {m} differ on {mism}"
        if drift is None and not impl.is_finished() and job["complete"]:
            drift = "model behaviour finished but the real run is not finished"
        extra = 0
        while drift is not None and not impl.is_finished() and extra < 200:
            # the real code left the model's path: let it run on with a non-crossing environment so that the
            # requirement-level trace validation still sees a complete run
            state["want_norm2"] = float(init_gap) + impl.jump_threshold
            impl.progress()
            extra += 1
        finished = impl.is_finished()
    except BaseException as e:  # noqa
        err = f"{type(e).__name__}: {e}"
        finished = False
    finally:
        impl_mod.evolve_pair = orig_evolve_pair
        random.uniform = orig_uniform
        _verif.set_sink(None)
    keep = {"mps_new", "mps_update_h", "mps_fill", "mps_thr", "mps_sweep", "mps_jump", "mps_step_done"}
    return {"job": job, "events": [e for e in ev if e["ev"] in keep], "error": err, "drift": drift, "finished": finished, "steps": steps_done}


# ------------------------------------------------------------------ TLC behaviours -> scripts
def behaviours_from_sim(simdir) -> list[list[tuple[dict, dict]]]:
    from harness.tlc import parse_sim_file

    behs = []
    for f in sorted(simdir.iterdir()):
        st = parse_sim_file(f)
        if len(st) >= 2:
            behs.append([(st[k]["vars"], st[k + 1]["vars"]) for k in range(len(st) - 1)])
    return behs


def script_of(beh: list[tuple[dict, dict]], K: int) -> dict:
    steps = []
    for pre, post in beh:
        jumped = post["lastJump"]["fresh"] and (post["jumps"] == pre["jumps"] + 1)
        if jumped:
            j = post["lastJump"]
            g = j["fa"] if j["t"] == j["a"] else j["fb"]
            g2 = post["gap"]
        else:
            g = post["gap"]
            g2 = None
        steps.append({"g": g, "g2": g2, "post": {"ts": post["ts"], "cur": post["cur"], "tgt": post["tgt"], "gap": post["gap"],
                                                   "searching": post["rf"]["eps"] != [0, 1]}})
    return {"init_gap": beh[0][0]["gap"], "script": steps, "complete": beh[-1][1]["ts"] == K}


def run(ctx: Ctx) -> None:
    ctx.level = "model_checking"
    ctx.assumptions += [
        "environment assumptions of NoisyStep.tla: at most MaxJumps threshold crossings per step; the gap is never exactly zero",
        "replays substitute the two-site evolution kernel (emu_mps.mps_backend_impl.evolve_pair) and random.uniform by scripted versions; everything else is the real code",
        "times in traces are rank-projected (order-exact); |a-b|<1 is computed on raw floats",
    ]
    names = ["k2l4"] if ctx.quick else ["k2l4", "k2l8", "k1l8g6", "k3l4"]
    jobs = []
    for name in names:
        c = MODEL_CFGS[name]
        res = run_tlc("MCNoisyStep", None, workdir=ctx.work, name=f"mc_{name}", cfg_text=cfg_text(c), coverage=True, timeout=3000)
        ctx.add_tlc(res)
        if res["violated"]:
            ctx.log(f"TLC: NoisyStep model violates {res['violated']} ({name}); real replays below decide")
            ctx.notes.append(f"model {name} violates {res['violated']}")
        if res.get("coverage_zero"):
            ctx.notes.append(f"{name}: actions never taken: {res['coverage_zero']}")
        nsim = ctx.pick(150, 600)
        simdir = ctx.work / f"sim_{name}"
        simdir.mkdir(parents=True, exist_ok=True)
        sim = run_tlc("MCNoisyStep", None, workdir=ctx.work, name=f"simrun_{name}", cfg_text=cfg_text(c, log=False, live=False),
                      simulate=f"file={simdir}/tr,num={nsim}", depth=60, workers=1, extra=["-seed", str(ctx.seed + 11)], timeout=1200)
        behs = behaviours_from_sim(simdir)
        if not behs:
            raise MachineryError("no behaviours from TLC -simulate")
        seen = set()
        for b in behs:
            sc = script_of(b, c[0])
            key = str([(s["g"], s["g2"]) for s in sc["script"]]) + str(sc["init_gap"])
            if key in seen:
                continue
            seen.add(key)
            jobs.append({"cfg": name, "K": c[0], "L": c[1], "due": DUE[c[5]], **sc})
        ctx.log(f"{name}: TLC {res.get('distinct')} states; {len(behs)} simulated behaviours, {len(seen)} distinct scripts")
    # ---- replay (binding A)
    reps = pmap(replay_worker, jobs)
    traces = []
    meta = {}
    for r in reps:
        j = r["job"]
        key = ("replay", j["cfg"], str([(s["g"], s["g2"]) for s in j["script"]]))
        njumps = sum(1 for s in j["script"] if s["g2"] is not None)
        ctx.case(key, nontrivial=njumps > 0, sample={"cfg": j["cfg"], "gaps": [str(F(*s["g"])) for s in j["script"]][:12], "jumps": njumps})
        if r["error"]:
            ctx.violation("noisy-step:replay:raised", f"real NoisyMPSBackendImpl raised during a scripted norm sequence: {r['error']}",
                          {"job": j, "error": r["error"]})
            continue
        if r["drift"]:
            ctx.model_drift(f"{j['cfg']}: {r['drift']}")
        tr = project(r["events"], len(traces) + 1, partial=not j["complete"])
        if tr is None:
            raise MachineryError("hook event mps_new missing in a replay (hooks removed?)")
        traces.append(tr)
        meta[tr["id"]] = ("replay", j)
    n_replay = len(traces)
    # ---- ordinary real noisy runs (binding B)
    rjobs = []
    rng = ctx.rng
    nreal = ctx.pick(24, 160)
    for i in range(nreal):
        dt = rng.choice([0.5, 1.0, 3.0, 10.0, 50.0])
        duration = rng.choice([20, 40, 100]) if dt < 50 else 100
        if dt == 0.5:
            duration = 16
        rates = rng.choice([
            {"relaxation_rate": 20.0}, {"relaxation_rate": 60.0, "dephasing_rate": 40.0}, {"dephasing_rate": 80.0},
            {"depolarizing_rate": 50.0}, {"relaxation_rate": 150.0}, {"relaxation_rate": 5.0, "depolarizing_rate": 5.0},
        ])
        due = rng.choice([[1.0], [0.0, 0.5, 1.0], [0.25, 0.75], [0.0, 1.0]])
        rjobs.append({"n": rng.choice([2, 2, 3]), "duration": duration, "dt": dt, "rates": rates, "due": due, "seed": ctx.seed * 1000 + i})
    rres = pmap(real_run_worker, rjobs)
    njump_total = 0
    for r in rres:
        j = r["job"]
        nj = sum(1 for e in r["events"] if e["ev"] == "mps_jump")
        njump_total += nj
        ctx.case(("real", j["n"], j["duration"], j["dt"], str(j["rates"]), j["seed"]), nontrivial=nj > 0)
        if r["error"]:
            ctx.violation(f"noisy-step:real-run:raised:{r['error'].split(':')[0]}", f"real noisy emu-mps run raised: {r['error']}", j)
            continue
        tr = project(r["events"], len(traces) + 1)
        if tr is None:
            raise MachineryError("hook event mps_new missing in a real run (hooks removed?)")
        traces.append(tr)
        meta[tr["id"]] = ("real", j)
    ctx.coverage["real_runs"] = len(rres)
    ctx.coverage["real_jumps"] = njump_total
    ctx.coverage["replays"] = n_replay
    verdicts = validate_batch(ctx, "NoisyStepTrace", traces, "steptraces")
    for tr in traces:
        v = verdicts[tr["id"]]
        if v[0] == "REJECT":
            kind, j = meta[tr["id"]]
            ctx.violation(f"noisy-step:{v[2]}", f"{kind} trace of NoisyMPSBackendImpl rejected by NoisyStepTrace at event {v[1]}: {v[2]}",
                          {"kind": kind, "job": j, "event_index": v[1], "events_around": tr["events"][max(0, v[1] - 4): v[1] + 2]})
    if njump_total == 0:
        ctx.notes.append("no quantum jump happened in the ordinary real runs (vacuous for the jump clauses)")
    ctx.coverage["rule"] = ("replay: one case per distinct TLC-simulated gap script (non-trivial if it contains a jump); real: one case per "
                            "(atoms, duration, dt, noise rates, seed) trajectory (non-trivial if a jump occurred)")
