"""C31 smoke run, executed in a SUBPROCESS under one pulser-core distribution.

Prints one JSON object on the last line of stdout:
  {"pulser_core": version, "steps": [{"name", "ok", "error"?, "detail"?}, ...], "observables": [...]}
Steps: import of the three packages; construction of every Observable subclass the packages define
(discovered by walking emu_base / emu_sv / emu_mps) and of the pulser observables they re-export;
end-to-end runs: emu-sv unitary, emu-sv Lindblad, emu-mps TDVP, emu-mps DMRG, emu-mps noisy
trajectories, both backends with a user interaction matrix, emu-mps on an XY sequence.
"""
from __future__ import annotations

import contextlib
import importlib
import inspect
import io
import json
import logging
import os
import pkgutil
import sys
import traceback
import warnings

warnings.filterwarnings("ignore")
STEPS: list = []


def step(name: str):
    def deco(fn):
        try:
            with contextlib.redirect_stdout(io.StringIO()):
                detail = fn()
            STEPS.append({"name": name, "ok": True, "detail": detail})
        except BaseException as ex:  # noqa: BLE001
            if isinstance(ex, (KeyboardInterrupt, SystemExit)):
                raise
            tb = traceback.extract_tb(ex.__traceback__)
            where = next((f"{os.path.basename(f.filename)}:{f.lineno}" for f in reversed(tb) if "/emu_" in f.filename), "")
            STEPS.append({"name": name, "ok": False, "error": f"{type(ex).__name__}: {str(ex)[:300]}", "where": where})
        return fn
    return deco


def main() -> None:
    logging.getLogger("emulators").setLevel(logging.CRITICAL)
    import importlib.metadata as md

    out: dict = {"pulser_core": md.version("pulser-core"), "python": sys.version.split()[0]}
    mods: dict = {}

    @step("import")
    def _imp():
        for m in ("emu_base", "emu_sv", "emu_mps"):
            mods[m] = importlib.import_module(m)
        import pulser

        return {"pulser": pulser.__version__, "emu_base_file": mods["emu_base"].__file__}

    if not STEPS[-1]["ok"]:
        out["steps"] = STEPS
        print(json.dumps(out))
        return

    import pulser
    import torch
    from pulser.backend import Observable

    import emu_mps
    import emu_sv

    # ------------------------------------------------------------------ sequences
    def seq(n=3, xy=False, dur=40):
        reg = pulser.Register({f"q{i}": (7.0 * i, 0.0) for i in range(n)})
        s = pulser.Sequence(reg, pulser.MockDevice)
        if xy:
            s.declare_channel("ch", "mw_global")
        else:
            s.declare_channel("ch", "rydberg_global")
        s.add(pulser.Pulse.ConstantPulse(dur, 8.0, 0.0 if xy else 2.0, 0.0), "ch")
        return s

    # ------------------------------------------------------------------ observables
    defined = {}
    for pkg in ("emu_base", "emu_sv", "emu_mps"):
        p = mods[pkg]
        for mi in pkgutil.walk_packages(p.__path__, prefix=pkg + "."):
            try:
                m = importlib.import_module(mi.name)
            except Exception as ex:  # a module that does not import is a failure of its own
                STEPS.append({"name": f"import:{mi.name}", "ok": False, "error": f"{type(ex).__name__}: {str(ex)[:200]}"})
                continue
            for nm, obj in vars(m).items():
                if inspect.isclass(obj) and issubclass(obj, Observable) and obj is not Observable and obj.__module__.startswith("emu_"):
                    defined[f"{obj.__module__}.{obj.__name__}"] = obj
    reexported = {}
    for pkg in (emu_sv, emu_mps):
        for nm in getattr(pkg, "__all__", []):
            obj = getattr(pkg, nm, None)
            if inspect.isclass(obj) and issubclass(obj, Observable) and obj is not Observable:
                reexported[f"{pkg.__name__}.{nm}"] = obj
    out["observables"] = sorted(set(defined) | set(reexported))

    def construct(qual, cls, backend):
        sig = inspect.signature(cls.__init__).parameters
        kw = {}
        if "evaluation_times" in sig and cls.__name__ != "Statistics":
            kw["evaluation_times"] = [1.0]
        if cls.__name__ == "Statistics":
            kw.update(evaluation_times=[1.0], data=[0.1], timestep_count=1)
        if "mps_site" in sig:
            kw["mps_site"] = 1
        if "state" in sig:
            kw["state"] = (emu_sv.StateVector.make(3, gpu=False) if backend == "sv" else emu_mps.MPS.make(3, num_gpus_to_use=0))
        if "operator" in sig:
            if backend == "sv":
                kw["operator"] = emu_sv.DenseOperator.from_operator_repr(eigenstates=("r", "g"), n_qudits=3, operations=[(1.0, [({"rr": 1.0}, [0])])])
            else:
                kw["operator"] = emu_mps.MPO.from_operator_repr(eigenstates=("r", "g"), n_qudits=3, operations=[(1.0, [({"rr": 1.0}, [0])])])
        if "num_shots" in sig:
            kw["num_shots"] = 20
        return cls(**kw)

    for qual, cls in sorted({**defined, **reexported}.items()):
        backend = "sv" if qual.startswith("emu_sv") else "mps"

        @step(f"construct:{qual}")
        def _c(qual=qual, cls=cls, backend=backend):
            o = construct(qual, cls, backend)
            return {"tag": o.tag}

    def obs_for(backend):
        res = []
        seen = set()
        for qual, cls in sorted({**defined, **reexported}.items()):
            if not qual.startswith("emu_sv" if backend == "sv" else "emu_mps") or cls.__name__ == "Statistics":
                continue
            try:
                o = construct(qual, cls, backend)
            except Exception:
                continue   # reported by its construct step
            if o.tag in seen:
                continue
            seen.add(o.tag)
            res.append(o)
        return res

    def check_results(res, obs, aggregated_n=1):
        tags = set(res.get_result_tags())
        missing = [o.tag for o in obs if o.tag not in tags]
        if missing and aggregated_n == 1:
            raise AssertionError(f"results lack {missing}")
        return {"tags": sorted(tags)}

    # ------------------------------------------------------------------ runs
    @step("run:sv:unitary")
    def _r1():
        obs = obs_for("sv")
        cfg = emu_sv.SVConfig(dt=10.0, gpu=False, observables=obs, log_level=logging.CRITICAL)
        return check_results(emu_sv.SVBackend(seq(), config=cfg).run(), obs)

    @step("run:sv:lindblad")
    def _r2():
        obs = [o for o in obs_for("sv") if o.tag in ("bitstrings", "occupation", "correlation_matrix", "energy", "energy_variance", "energy_second_moment")]
        cfg = emu_sv.SVConfig(dt=10.0, gpu=False, observables=obs, log_level=logging.CRITICAL,
                              noise_model=pulser.NoiseModel(relaxation_rate=0.5, dephasing_rate=0.3))
        return check_results(emu_sv.SVBackend(seq(), config=cfg).run(), obs)

    @step("run:mps:tdvp")
    def _r3():
        obs = obs_for("mps")
        cfg = emu_mps.MPSConfig(dt=10.0, num_gpus_to_use=0, observables=obs, log_level=logging.CRITICAL)
        return check_results(emu_mps.MPSBackend(seq(), config=cfg).run(), obs)

    @step("run:mps:dmrg")
    def _r4():
        obs = [o for o in obs_for("mps") if o.tag in ("bitstrings", "occupation", "energy", "entanglement_entropy")]
        cfg = emu_mps.MPSConfig(dt=20.0, num_gpus_to_use=0, observables=obs, log_level=logging.CRITICAL, solver=emu_mps.Solver.DMRG)
        return check_results(emu_mps.MPSBackend(seq(), config=cfg).run(), obs)

    @step("run:mps:noisy-trajectories")
    def _r5():
        obs = [o for o in obs_for("mps") if o.tag in ("bitstrings", "occupation", "energy")]
        cfg = emu_mps.MPSConfig(dt=20.0, num_gpus_to_use=0, observables=obs, log_level=logging.CRITICAL, n_trajectories=2,
                                noise_model=pulser.NoiseModel(relaxation_rate=1.0, amp_sigma=0.05))
        return check_results(emu_mps.MPSBackend(seq(), config=cfg).run(), obs, aggregated_n=2)

    @step("run:sv:spam-trajectories")
    def _r6():
        obs = [o for o in obs_for("sv") if o.tag in ("bitstrings", "occupation")]
        cfg = emu_sv.SVConfig(dt=20.0, gpu=False, observables=obs, log_level=logging.CRITICAL, n_trajectories=3,
                              noise_model=pulser.NoiseModel(state_prep_error=0.1, p_false_pos=0.02, p_false_neg=0.03))
        return check_results(emu_sv.SVBackend(seq(), config=cfg).run(), obs, aggregated_n=3)

    imat = [[0.0, 2.0, 0.5], [2.0, 0.0, 2.0], [0.5, 2.0, 0.0]]

    @step("run:sv:custom-interaction-matrix")
    def _r7():
        obs = [o for o in obs_for("sv") if o.tag in ("occupation",)]
        cfg = emu_sv.SVConfig(dt=20.0, gpu=False, observables=obs, log_level=logging.CRITICAL, interaction_matrix=imat)
        return check_results(emu_sv.SVBackend(seq(), config=cfg).run(), obs)

    @step("run:mps:custom-interaction-matrix")
    def _r8():
        obs = [o for o in obs_for("mps") if o.tag in ("occupation",)]
        cfg = emu_mps.MPSConfig(dt=20.0, num_gpus_to_use=0, observables=obs, log_level=logging.CRITICAL, interaction_matrix=imat)
        return check_results(emu_mps.MPSBackend(seq(), config=cfg).run(), obs)

    @step("run:mps:xy")
    def _r9():
        obs = [o for o in obs_for("mps") if o.tag in ("occupation", "bitstrings")]
        cfg = emu_mps.MPSConfig(dt=20.0, num_gpus_to_use=0, observables=obs, log_level=logging.CRITICAL)
        return check_results(emu_mps.MPSBackend(seq(xy=True), config=cfg).run(), obs)

    out["steps"] = STEPS
    print(json.dumps(out))


if __name__ == "__main__":
    main()
