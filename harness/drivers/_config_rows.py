"""Instantiation of EmuConfig.tla rows on the real MPSConfig / create_impl (C33).  Pool-safe module."""
from __future__ import annotations

import logging
import math
from typing import Any

INF_TENTHS = 1000000
MIN_TOL = 1e-12
ULP_SLACK = 1 - 8 * 2.0 ** -53     # the statement is about the product; the code computes 1e-12 / precision

# four atoms on a line whose LABEL order is scrambled, so that bandwidth minimisation permutes them
COORDS = [[0.0, 0.0], [21.0, 0.0], [7.0, 0.0], [14.0, 0.0]]

_CACHE: dict = {}


def _sequence():
    if "seq" not in _CACHE:
        from harness.gen import seqs

        amp = {"k": "const", "d": 20, "v": 4.0}
        det = {"k": "const", "d": 20, "v": 0.0}
        _CACHE["seq"] = seqs.build_sequence({"coords": COORDS, "channels": {"ryd": "rydberg_global"},
                                             "ops": [{"op": "add", "ch": "ryd", "pulse": {"amp": amp, "det": det, "phase": 0.0}}]})
    return _CACHE["seq"]


def _memoise_optimiser() -> None:
    """The bandwidth optimiser takes ~1.5 s per call; its answer only depends on the matrix.  A
    memoising wrapper (harness process only, the real function still produces every answer)."""
    import emu_mps.optimatrix as optimat

    if getattr(optimat.minimize_bandwidth, "_verif_memo", False):
        return
    real = optimat.minimize_bandwidth
    memo: dict = {}

    def wrapped(mat, *a, **k):
        key = (tuple(mat.shape), mat.detach().cpu().numpy().tobytes())
        if key not in memo:
            memo[key] = real(mat, *a, **k)
        return memo[key].clone()

    wrapped._verif_memo = True  # type: ignore[attr-defined]
    optimat.minimize_bandwidth = wrapped


def _custom_observable_class():
    if "custom" not in _CACHE:
        from pulser.backend import Observable

        class VerifCustomObservable(Observable):
            """A user-defined observable the package cannot know how to un-permute."""

            def __init__(self) -> None:
                import inspect

                from pulser.backend import observable as _o

                kw = {}
                if "default_aggregation_method" in inspect.signature(_o.Observable.__init__).parameters:
                    kw["default_aggregation_method"] = _o.AggregationMethod["SKIP"]
                super().__init__(**kw)

            @property
            def _base_tag(self) -> str:
                return "verif_custom"

            def apply(self, *, state: Any, **kwargs: Any) -> Any:
                return float(state.norm())

        _CACHE["custom"] = VerifCustomObservable
    return _CACHE["custom"]


def observables(tags: list[str], n: int = 4) -> list:
    import torch
    from pulser.backend import (BitStrings, CorrelationMatrix, Energy, EnergySecondMoment, EnergyVariance,
                                Expectation, Fidelity, Occupation, StateResult)

    import emu_mps
    from emu_mps import MPO, MPS

    out = []
    for t in sorted(tags):
        if t == "bitstrings":
            out.append(BitStrings(num_shots=10))
        elif t == "occupation":
            out.append(Occupation())
        elif t == "correlation_matrix":
            out.append(CorrelationMatrix())
        elif t == "energy":
            out.append(Energy())
        elif t == "energy_variance":
            out.append(EnergyVariance())
        elif t == "energy_second_moment":
            out.append(EnergySecondMoment())
        elif t == "state":
            out.append(StateResult())
        elif t == "fidelity":
            out.append(Fidelity(state=MPS.make(n, num_gpus_to_use=0)))
        elif t == "expectation":
            ident = torch.eye(2, dtype=torch.complex128).reshape(1, 2, 2, 1)
            out.append(Expectation(operator=MPO([ident.clone() for _ in range(n)], num_gpus_to_use=0)))
        elif t == "entanglement_entropy":
            out.append(emu_mps.EntanglementEntropy(mps_site=1))
        elif t == "custom":
            out.append(_custom_observable_class()())
        else:
            raise ValueError(t)
    return out


def noise_model(nc: str):
    from pulser import NoiseModel

    kw: dict = {}
    if "lindblad" in nc:
        kw["relaxation_rate"] = 0.1
    if "stochastic" in nc:
        kw["amp_sigma"] = 0.05
    if nc == "spam_meas":
        kw["p_false_pos"] = 0.05
    return NoiseModel(**kw) if kw else None


def run_cfg(row: dict) -> dict:
    """row: {p, e, dt, obs: [tags], reorder, solver, noise}"""
    import warnings

    warnings.filterwarnings("ignore")
    logging.getLogger("emulators").setLevel(logging.CRITICAL)
    import torch
    from emu_mps import MPSConfig, Solver

    out: dict = {"row": row}
    try:
        obs = observables(row["obs"])
        nm = noise_model(row["noise"])
        seq = _sequence()
    except Exception as ex:
        out["harness_error"] = f"{type(ex).__name__}: {ex}"
        return out
    precision = 10.0 ** (-row["p"])
    extra = 10.0 ** (-row["e"])
    dt = math.inf if row["dt"] >= INF_TENTHS else row["dt"] / 10.0
    kw: dict = dict(dt=10.0, precision=precision, extra_krylov_tolerance=extra, autosave_dt=dt, observables=obs,
                    optimize_qubit_ordering=row["reorder"], solver=Solver.DMRG if row["solver"] == "dmrg" else Solver.TDVP,
                    num_gpus_to_use=0, log_level=logging.CRITICAL)
    if nm is not None:
        kw["noise_model"] = nm
    out["inputs"] = {"precision": precision, "extra_krylov_tolerance": extra, "autosave_dt": dt}
    try:
        cfg = MPSConfig(**kw)
    except BaseException as ex:  # noqa: BLE001
        if isinstance(ex, (KeyboardInterrupt, SystemExit)):
            raise
        out["construct"] = {"raised": type(ex).__name__, "msg": str(ex)[:160]}
        return out
    out["construct"] = {
        "precision": float(cfg.precision), "extra_krylov_tolerance": float(cfg.extra_krylov_tolerance),
        "product": float(cfg.precision * cfg.extra_krylov_tolerance), "autosave_dt": float(cfg.autosave_dt),
        "reorder": bool(cfg.optimize_qubit_ordering), "tags": sorted(o._base_tag for o in cfg.observables),
    }
    # create_impl on a real SequenceData (no evolution is run)
    try:
        from emu_base import PulserData
        from emu_mps.mps_backend_impl import create_impl

        torch.manual_seed(0)
        _memoise_optimiser()
        pd = PulserData(sequence=seq, config=cfg, dt=cfg.dt)
        sd = next(iter(pd.get_sequences()))
        impl = create_impl(sd, cfg)
        perm = [int(x) for x in impl.qubit_permutation]
        out["impl"] = {"cls": type(impl).__name__, "perm": perm, "identity": perm == list(range(len(perm)))}
    except BaseException as ex:  # noqa: BLE001
        if isinstance(ex, (KeyboardInterrupt, SystemExit)):
            raise
        out["impl"] = {"raised": type(ex).__name__, "msg": str(ex)[:160]}
    return out


def run_tolerance_at_point_of_use(case: dict) -> dict:
    """A real 2-step TDVP run; every Krylov exponentiation logs the tolerance it was given."""
    import warnings

    warnings.filterwarnings("ignore")
    import contextlib
    import io

    from emu_base import _verif
    from emu_mps import MPSBackend, MPSConfig
    from pulser.backend import Occupation

    ev: list = []
    _verif.set_sink(ev)
    out = {"case": case}
    try:
        with contextlib.redirect_stdout(io.StringIO()):
            cfg = MPSConfig(dt=10.0, precision=case["precision"], extra_krylov_tolerance=case["extra"], observables=[Occupation(evaluation_times=[1.0])],
                            num_gpus_to_use=0, log_level=logging.CRITICAL)
            MPSBackend(_sequence(), config=cfg).run()
        tols = [float(e["tol"]) for e in ev if e["ev"] == "kry_exit"]
        out["n_exp"] = len(tols)
        out["min_tol"] = min(tols) if tols else None
        out["cfg_product"] = float(cfg.precision * cfg.extra_krylov_tolerance)
    except BaseException as ex:  # noqa: BLE001
        if isinstance(ex, (KeyboardInterrupt, SystemExit)):
            raise
        out["raised"] = f"{type(ex).__name__}: {str(ex)[:200]}"
    _verif.set_sink(None)
    return out
