"""Instantiation of EmuConfig.tla rows on the real MPSConfig / create_impl (C33).  Pool-safe module."""
from __future__ import annotations

import logging
import math
from typing import Any

INF_TENTHS = 1000000
MIN_TOL = 1e-12
ULP_SLACK = 1 - 8 * 2.0 ** -53     # the statement is about the product; the code computes 1e-12 / precision

# four atoms on a line whose LABEL order is scrambled, so that bandwidth minimisation permutes them
COORDS = [[0.0, 0.0], [21.0, 0.0], [7.0, 0.0], [14.0, 0.0]]

_CACHE: dict = {}


def _sequence(device_noise: str = "none"):
    """The 4-atom sequence; with device_noise != "none" it is declared on a copy of MockDevice whose
    default_noise_model is that noise model (used with prefer_device_noise_model=True)."""
    key = ("seq", device_noise)
    if key not in _CACHE:
        import dataclasses

        import pulser

        dev = pulser.MockDevice
        if device_noise != "none":
            dev = dataclasses.replace(pulser.MockDevice, default_noise_model=noise_model(device_noise))
        reg = pulser.Register({f"q{i}": tuple(c) for i, c in enumerate(COORDS)})
        seq = pulser.Sequence(reg, dev)
        seq.declare_channel("ryd", "rydberg_global")
        seq.add(pulser.Pulse.ConstantPulse(20, 4.0, 0.0, 0.0), "ryd")
        _CACHE[key] = seq
    return _CACHE[key]


class _Stop(BaseException):
    """Raised by the harness wrapper around MPSBackend._run: the public run() path reached the simulation."""


def run_path(seq, cfg) -> dict:
    """MPSBackend(seq, cfg).run() up to the point where the simulation loop would start (the harness
    replaces MPSBackend._run in this process by a sentinel): refused (exception) or the implementation class."""
    import contextlib
    import io

    from emu_mps import MPSBackend

    orig = MPSBackend.__dict__["_run"]

    def stop(impl):
        raise _Stop(type(impl).__name__)

    MPSBackend._run = staticmethod(stop)
    try:
        with contextlib.redirect_stdout(io.StringIO()):
            MPSBackend(seq, config=cfg).run()
        return {"returned": True}
    except _Stop as s:
        return {"cls": str(s)}
    except BaseException as ex:  # noqa: BLE001
        if isinstance(ex, (KeyboardInterrupt, SystemExit)):
            raise
        return {"raised": type(ex).__name__, "msg": str(ex)[:160]}
    finally:
        MPSBackend._run = orig


def _memoise_optimiser() -> None:
    """The bandwidth optimiser takes ~1.5 s per call; its answer only depends on the matrix.  A
    memoising wrapper (harness process only, the real function still produces every answer)."""
    import emu_mps.optimatrix as optimat

    if getattr(optimat.minimize_bandwidth, "_verif_memo", False):
        return
    real = optimat.minimize_bandwidth
    memo: dict = {}

    def wrapped(mat, *a, **k):
        key = (tuple(mat.shape), mat.detach().cpu().numpy().tobytes())
        if key not in memo:
            memo[key] = real(mat, *a, **k)
        return memo[key].clone()

    wrapped._verif_memo = True  # type: ignore[attr-defined]
    optimat.minimize_bandwidth = wrapped


def _custom_observable_class():
    if "custom" not in _CACHE:
        from pulser.backend import Observable

        class VerifCustomObservable(Observable):
            """A user-defined observable the package cannot know how to un-permute."""

            def __init__(self) -> None:
                import inspect

                from pulser.backend import observable as _o

                kw = {}
                if "default_aggregation_method" in inspect.signature(_o.Observable.__init__).parameters:
                    kw["default_aggregation_method"] = _o.AggregationMethod["SKIP"]
                super().__init__(**kw)

            @property
            def _base_tag(self) -> str:
                return "verif_custom"

            def apply(self, *, state: Any, **kwargs: Any) -> Any:
                return float(state.norm())

        _CACHE["custom"] = VerifCustomObservable
    return _CACHE["custom"]


def observables(tags: list[str], n: int = 4) -> list:
    import torch
    from pulser.backend import (BitStrings, CorrelationMatrix, Energy, EnergySecondMoment, EnergyVariance,
                                Expectation, Fidelity, Occupation, StateResult)

    import emu_mps
    from emu_mps import MPO, MPS

    out = []
    for t in sorted(tags):
        if t == "bitstrings":
            out.append(BitStrings(num_shots=10))
        elif t == "occupation":
            out.append(Occupation())
        elif t == "correlation_matrix":
            out.append(CorrelationMatrix())
        elif t == "energy":
            out.append(Energy())
        elif t == "energy_variance":
            out.append(EnergyVariance())
        elif t == "energy_second_moment":
            out.append(EnergySecondMoment())
        elif t == "state":
            out.append(StateResult())
        elif t == "fidelity":
            out.append(Fidelity(state=MPS.make(n, num_gpus_to_use=0)))
        elif t == "expectation":
            ident = torch.eye(2, dtype=torch.complex128).reshape(1, 2, 2, 1)
            out.append(Expectation(operator=MPO([ident.clone() for _ in range(n)], num_gpus_to_use=0)))
        elif t == "entanglement_entropy":
            out.append(emu_mps.EntanglementEntropy(mps_site=1))
        elif t == "custom":
            out.append(_custom_observable_class()())
        else:
            raise ValueError(t)
    return out


def noise_model(nc: str):
    from pulser import NoiseModel

    kw: dict = {}
    if "lindblad" in nc:
        kw["relaxation_rate"] = 0.1
    if "stochastic" in nc:
        kw["amp_sigma"] = 0.05
    if nc == "spam_meas":
        kw["p_false_pos"] = 0.05
    return NoiseModel(**kw) if kw else None


def run_cfg(row: dict) -> dict:
    """row: {p, e, dt, obs: [tags], reorder, solver, noise, src}"""
    import warnings

    warnings.filterwarnings("ignore")
    logging.getLogger("emulators").setLevel(logging.CRITICAL)
    import torch
    from emu_mps import MPSConfig, Solver

    out: dict = {"row": row}
    try:
        obs = observables(row["obs"])
        device = row.get("src", "config") == "device"
        nm = None if device else noise_model(row["noise"])
        seq = _sequence(row["noise"] if device else "none")
    except Exception as ex:
        out["harness_error"] = f"{type(ex).__name__}: {ex}"
        return out
    precision = 10.0 ** (-row["p"])
    extra = 10.0 ** (-row["e"])
    dt = math.inf if row["dt"] >= INF_TENTHS else row["dt"] / 10.0
    kw: dict = dict(dt=10.0, precision=precision, extra_krylov_tolerance=extra, autosave_dt=dt, observables=obs,
                    optimize_qubit_ordering=row["reorder"], # both documented spellings of the solver (the enum member and its string value), alternating over the rows
                    solver=(row["solver"] if (row["p"] + row["e"] + len(row["obs"])) % 2 == 0 else (Solver.DMRG if row["solver"] == "dmrg" else Solver.TDVP)),
                    num_gpus_to_use=0, log_level=logging.CRITICAL)
    if nm is not None:
        kw["noise_model"] = nm
    if device:
        kw["prefer_device_noise_model"] = True
    out["inputs"] = {"precision": precision, "extra_krylov_tolerance": extra, "autosave_dt": dt}
    try:
        cfg = MPSConfig(**kw)
    except BaseException as ex:  # noqa: BLE001
        if isinstance(ex, (KeyboardInterrupt, SystemExit)):
            raise
        out["construct"] = {"raised": type(ex).__name__, "msg": str(ex)[:160]}
        return out
    out["construct"] = {
        "precision": float(cfg.precision), "extra_krylov_tolerance": float(cfg.extra_krylov_tolerance),
        "product": float(cfg.precision * cfg.extra_krylov_tolerance), "autosave_dt": float(cfg.autosave_dt),
        "reorder": bool(cfg.optimize_qubit_ordering), "tags": sorted(o._base_tag for o in cfg.observables),
    }
    # create_impl on a real SequenceData (no evolution is run)
    try:
        from emu_base import PulserData
        from emu_mps.mps_backend_impl import create_impl

        torch.manual_seed(0)
        _memoise_optimiser()
        pd = PulserData(sequence=seq, config=cfg, dt=cfg.dt)
        sd = next(iter(pd.get_sequences()))
        impl = create_impl(sd, cfg)
        perm = [int(x) for x in impl.qubit_permutation]
        out["impl"] = {"cls": type(impl).__name__, "perm": perm, "identity": perm == list(range(len(perm)))}
    except BaseException as ex:  # noqa: BLE001
        if isinstance(ex, (KeyboardInterrupt, SystemExit)):
            raise
        out["impl"] = {"raised": type(ex).__name__, "msg": str(ex)[:160]}
    # the public path decides whether DMRG refuses a noisy model
    if row["solver"] == "dmrg" and row["noise"] != "none":
        _memoise_optimiser()
        out["run"] = run_path(seq, cfg)
    return out


def run_tolerance_at_point_of_use(case: dict) -> dict:
    """A real 2-step TDVP run; every Krylov exponentiation logs the tolerance it was given."""
    import warnings

    warnings.filterwarnings("ignore")
    import contextlib
    import io

    from emu_base import _verif
    from emu_mps import MPSBackend, MPSConfig
    from pulser.backend import Occupation

    ev: list = []
    _verif.set_sink(ev)
    out = {"case": case}
    try:
        with contextlib.redirect_stdout(io.StringIO()):
            cfg = MPSConfig(dt=10.0, precision=case["precision"], extra_krylov_tolerance=case["extra"], observables=[Occupation(evaluation_times=[1.0])],
                            num_gpus_to_use=0, log_level=logging.CRITICAL)
            MPSBackend(_sequence(), config=cfg).run()
        tols = [float(e["tol"]) for e in ev if e["ev"] == "kry_exit"]
        out["n_exp"] = len(tols)
        out["min_tol"] = min(tols) if tols else None
        out["cfg_product"] = float(cfg.precision * cfg.extra_krylov_tolerance)
    except BaseException as ex:  # noqa: BLE001
        if isinstance(ex, (KeyboardInterrupt, SystemExit)):
            raise
        out["raised"] = f"{type(ex).__name__}: {str(ex)[:200]}"
    _verif.set_sink(None)
    return out
