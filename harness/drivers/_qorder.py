"""Shared by C03 / C25 (not a check itself): label-tagged physical systems, real runs of the two
backends, the independent per-LABEL reference, and the projection of what a real run did into the
vocabulary of spec/QubitOrder.tla (index |-> label maps), on which TLC evaluates the requirement.

Atoms are labels 0..n-1.  A *physical system* fixes, per label: position, DMM weight (=> distinct
detuning), SLM membership, initial letters.  A *scenario* fixes how the code sees it: register
(insertion) order rho, what the optimiser answers, reordering on/off, dark set, initial state given,
levels.  The reference never looks at rho / the optimiser: it is computed once per (system, dark set)
in canonical label order, so any dependence of a real result on rho / optp is an error of the code.
"""
from __future__ import annotations

import dataclasses
import itertools
import json
import math
import random
from collections import Counter
from pathlib import Path
from typing import Any

import numpy as np

from harness.core import MachineryError
from harness.tlc import printed_tuples, run_tlc

_EX = None


def pool_map(fn, items, chunksize: int = 1, procs: int | None = None) -> list:
    """Ordered parallel map on ONE spawn pool per check invocation (workers import torch / pulser /
    emu_* once; same initialiser as harness.pool: hooks on, one torch thread)."""
    import atexit
    import concurrent.futures as cf
    import multiprocessing as mp
    import os

    from harness import pool as hp

    global _EX
    items = list(items)
    if not items:
        return []
    if _EX is None:
        n = procs or int(os.environ.get("VERIF_PROCS", "16"))
        _EX = cf.ProcessPoolExecutor(max_workers=max(1, n), mp_context=mp.get_context("spawn"), initializer=hp._init)
        atexit.register(lambda: _EX.shutdown(wait=False, cancel_futures=True))
    return list(_EX.map(fn, items, chunksize=max(1, chunksize)))


DT = 10
OFF, GROUND, UNK = -2, -3, -9
PAD = [-1, -1, -1, -1]
SV_ABSENT = [OFF, OFF, OFF, GROUND]
UNKNOWN = [UNK, UNK, UNK, UNK]
VARIANTS = {(s, p, m, a): f"cV{int(s)}{int(p)}{int(m)}{int(a)}" for s in (0, 1) for p in (0, 1) for m in (0, 1) for a in (0, 1)}
REPAIRED = "cV1111"


# ======================================================================================= systems
def gen_phys(rng: random.Random, n: int, slm: bool, given: bool, local2: bool = False) -> dict:
    """A random label-tagged system: distinct pair distances, distinct DMM weights, two pulses."""
    for _ in range(5000):
        xs = [0.0]
        for i in range(1, n):
            xs.append(xs[-1] + rng.uniform(6.2, 9.8))
        coords = [[x, rng.uniform(-2.5, 2.5)] for x in xs]
        d = sorted(math.dist(coords[i], coords[j]) for i in range(n) for j in range(i + 1, n))
        # pairs are identified by their interaction strength: close pairs must differ clearly; for far pairs
        # (negligible, rarely needed: a site is pinned by any two identified entries of its row) a little suffices
        if d[0] > 5.5 and all((b - a > 0.05) if a < 30.0 else (b - a > 0.0015) for a, b in zip(d, d[1:])):
            break
    else:  # pragma: no cover
        raise MachineryError("could not draw distinct pair distances")
    order = list(range(n))
    rng.shuffle(order)
    coords = [coords[i] for i in order]  # labels are not sorted along the line
    w = [round(0.08 + 0.9 * (i + rng.uniform(0.15, 0.85)) / n, 4) for i in range(n)]
    rng.shuffle(w)
    t1 = rng.choice([40, 80])
    t2 = t1 if rng.random() < 0.7 else (40 if t1 == 40 else 80)
    total = t1 + t2
    if total not in (80, 160):  # keep every grid / evaluation time an exact binary fraction of the duration
        t2 = t1
        total = 2 * t1
    phys = {
        "n": n, "coords": coords, "weights": w,
        "omega1": round(rng.uniform(7.0, 14.0), 3), "det1": round(rng.uniform(-3.0, 8.0), 3),
        "omega2": round(rng.uniform(7.0, 14.0), 3), "det2": round(rng.uniform(-3.0, 8.0), 3),
        "phase2": round(rng.choice([0.0, 0.0, 0.7, 2.1]), 3),
        "dmm_det": round(rng.uniform(-45.0, -12.0), 3), "t1": t1, "t2": t2,
        "slm": sorted(rng.sample(range(n), rng.randint(1, n - 1))) if slm and n >= 2 else [],
        "init": None,
        # second pulse on a LOCAL channel addressing one atom with its own phase: distinct phi / omega columns
        "local2": rng.randrange(n) if local2 else None,
    }
    if local2 and phys["phase2"] == 0.0:
        phys["phase2"] = 1.3
    if given:
        # two basis strings over LABELS with distinct letter patterns, amplitudes 0.8 / 0.6
        a = [rng.choice("rg") for _ in range(n)]
        if len(set(a)) == 1:
            a[rng.randrange(n)] = "r" if a[0] == "g" else "g"
        b = list(a)
        k = rng.randrange(n)
        b[k] = "r" if b[k] == "g" else "g"
        if rng.random() < 0.35:
            phys["init"] = [["".join(a), 1.0]]
        else:
            phys["init"] = [["".join(a), 0.8], ["".join(b), 0.6]]
    return phys


def seq_spec(phys: dict, order: list[int]) -> dict:
    """seqs.build_sequence spec of the system with its atoms inserted in `order` (a list of labels;
    a subset gives the reduced register)."""
    ids = [f"a{a}" for a in order]
    total = phys["t1"] + phys["t2"]
    spec: dict[str, Any] = {
        "coords": [phys["coords"][a] for a in order], "ids": ids, "device": "MockDevice",
        "channels": {"ryd": "rydberg_global"},
        "dmm": {"weights": {f"a{a}": phys["weights"][a] for a in order}},
        "ops": [
            {"op": "dmm", "wf": {"k": "const", "d": total, "v": phys["dmm_det"]}},
            {"op": "add", "ch": "ryd", "protocol": "no-delay",
             "pulse": {"amp": {"k": "const", "d": phys["t1"], "v": phys["omega1"]}, "det": {"k": "const", "d": phys["t1"], "v": phys["det1"]}, "phase": 0.0}},
            {"op": "add", "ch": "ryd", "protocol": "no-delay",
             "pulse": {"amp": {"k": "const", "d": phys["t2"], "v": phys["omega2"]}, "det": {"k": "const", "d": phys["t2"], "v": phys["det2"]}, "phase": phys["phase2"]}},
        ],
    }
    slm = [f"a{a}" for a in phys["slm"] if a in order]
    if slm:
        spec["slm"] = slm
    loc = phys.get("local2")
    if loc is not None:
        if loc in order:
            spec["channels"]["loc"] = "rydberg_local"
            spec["initial_target"] = {"loc": f"a{loc}"}
            spec["ops"][2]["ch"] = "loc"
            spec["ops"][2]["protocol"] = "no-delay"
            spec["ops"].insert(2, {"op": "delay", "d": phys["t1"], "ch": "loc"})
        else:                                     # the addressed atom is not in this (reduced) register: nobody is driven
            spec["ops"][2] = {"op": "delay", "d": phys["t2"], "ch": "ryd"}
    return spec


def eval_times(phys: dict) -> list[float]:
    total = phys["t1"] + phys["t2"]
    return [0.0, phys["t1"] / total, 1.0]


# ======================================================================================= reference
def reference(phys: dict, dark: list[bool], dim: int = 2) -> dict:
    """Dense per-LABEL reference of the system without its dark atoms (numpy / scipy / Pulser's own
    sampler only).  Returns occupations at the evaluation times, final correlations, final energy,
    final bitstring probabilities (strings over labels 0..n-1) and the per-label step-0 drive values
    and interaction matrices used to identify what the code put on each site."""
    from harness.gen import seqs
    from harness.ref import dense

    n = phys["n"]
    kept = [a for a in range(n) if not dark[a]]
    total = phys["t1"] + phys["t2"]
    ets = eval_times(phys)
    out: dict[str, Any] = {"kept": kept}
    # identification tables from the FULL canonical system (what Pulser hands over, per label)
    full = seqs.build_sequence(seq_spec(phys, list(range(n))))
    local, _, dur = seqs.pulser_local_samples(full)
    tt = seqs.ref_target_times(dur, DT, ets)
    ids = [f"a{a}" for a in range(n)]
    om, de, ph = seqs.ref_rows(local, ids, tt, dur)
    out["delta0"] = de[0].tolist()
    out["omega0"] = om[0].tolist()
    out["U"] = seqs.ref_interaction(full).tolist()
    out["target_times"] = tt
    m = len(kept)
    occ = np.zeros((len(ets), n))
    corr = np.zeros((n, n))
    if m == 0:
        out.update(occ=occ.tolist(), corr=corr.tolist(), energy=0.0, probs={"0" * n: 1.0})
        return out
    red = seqs.build_sequence(seq_spec(phys, kept))
    local, _, dur = seqs.pulser_local_samples(red)
    rid = [f"a{a}" for a in kept]
    om, de, ph = seqs.ref_rows(local, rid, tt, dur)
    U = seqs.ref_interaction(red) if m >= 2 else np.zeros((1, 1))
    slm_idx = [kept.index(a) for a in phys["slm"] if a in kept]
    Um = U.copy()
    for i in slm_idx:
        Um[i, :] = 0.0
        Um[:, i] = 0.0
    slm_end = phys["t1"] if slm_idx else 0.0
    mids = [0.5 * (tt[k] + tt[k + 1]) for k in range(len(tt) - 1)]
    psi0 = None
    if phys["init"]:
        psi0 = np.zeros(dim**m, dtype=complex)
        for s, amp in phys["init"]:
            bits = [1 if s[a] == "r" else 0 for a in kept]
            psi0 += amp * dense.basis_state(bits, dim)
        psi0 /= np.linalg.norm(psi0)
    states, hams = seqs.ref_unitary_run(om, de, ph, tt, lambda k: Um if mids[k] < slm_end else U, psi0=psi0, dim=dim)
    for ti, e in enumerate(ets):
        k = min(range(len(tt)), key=lambda i: abs(tt[i] - e * total))
        o = dense.occupation(states[k], m, dim)
        for i, a in enumerate(kept):
            occ[ti, a] = o[i]
    c = dense.correlation(states[-1], m, dim)
    for i, a in enumerate(kept):
        for j, b in enumerate(kept):
            corr[a, b] = c[i, j]
    energy = float(np.real(dense.expect(hams[-1], states[-1])))
    pr = dense.bit_probabilities(states[-1], m, dim)
    probs: dict[str, float] = {}
    for s, p in pr.items():
        fullbits = ["0"] * n
        for i, a in enumerate(kept):
            fullbits[a] = s[i]
        key = "".join(fullbits)
        probs[key] = probs.get(key, 0.0) + p
    out.update(occ=occ.tolist(), corr=corr.tolist(), energy=energy, probs=probs)
    return out


def ref_from_run(case: dict, obs: dict, dense_ref: dict) -> dict | None:
    """Per-LABEL values of a real run whose results are trusted to be in register order for the reason
    stated by the caller (no reordering, no permutation logic involved).  Used as the tight oracle
    for runs that must be the SAME computation (same chain of sites): TDVP's projection error, which the
    configured precision does not control, cancels exactly."""
    if obs["outcome"] != "ok" or obs["occupation"] is None or obs["corr"] is None or obs["energy"] is None:
        return None
    n = case["phys"]["n"]
    rho = case["rho"]
    if obs["atom_order"] != list(rho):
        return None
    occ = np.asarray(obs["occupation"])
    C = np.asarray(obs["corr"])
    if occ.ndim != 2 or occ.shape[1] != len(rho) or C.shape != (len(rho), len(rho)):
        return None
    o = np.zeros((occ.shape[0], n))
    c = np.zeros((n, n))
    for j, a in enumerate(rho):
        o[:, a] = occ[:, j]
        for i, b in enumerate(rho):
            c[b, a] = C[i, j]
    return {"occ": o.tolist(), "corr": c.tolist(), "energy": obs["energy"], "probs": None,
            "U": dense_ref["U"], "delta0": dense_ref["delta0"], "target_times": dense_ref["target_times"], "from_run": case["id"]}


def ident_tables(phys: dict) -> dict:
    """Per-label step-0 drive values and interaction matrix (what identifies an atom's data at a site)."""
    from harness.gen import seqs

    n = phys["n"]
    full = seqs.build_sequence(seq_spec(phys, list(range(n))))
    local, _, dur = seqs.pulser_local_samples(full)
    tt = seqs.ref_target_times(dur, DT, eval_times(phys))
    om, de, ph = seqs.ref_rows(local, [f"a{a}" for a in range(n)], tt, dur)
    return {"U": seqs.ref_interaction(full).tolist(), "delta0": de[0].tolist(), "omega0": om[0].tolist(), "target_times": tt,
            "occ": None, "corr": None, "energy": None, "probs": None}


def self_ref(case: dict, obs: dict, tables: dict) -> dict:
    """No independent values available (beyond dense / emu-sv reach): the run's own values, so that only
    what needs no reference is decided (atom order, site-level labels, dark positions)."""
    n = case["phys"]["n"]
    r = ref_from_run(case, obs, tables)
    if r is not None:
        return r
    return {"occ": [[0.0] * n] * 3, "corr": np.zeros((n, n)).tolist(), "energy": 0.0, "probs": None,
            "U": tables["U"], "delta0": tables["delta0"], "target_times": tables["target_times"]}


def ref_key(phys_id: Any, dark: list[bool], dim: int) -> str:
    return json.dumps([phys_id, [bool(x) for x in dark], dim])


# ======================================================================================= real runs
def _noise_for_dim(dim: int, extra: str | None):
    from pulser import NoiseModel

    if dim == 3:
        # leakage r -> x at a negligible rate: the three-level code path without observable jumps
        op = np.zeros((3, 3))
        op[2, 0] = 1.0
        return NoiseModel(with_leakage=True, eff_noise_opers=[op], eff_noise_rates=[1e-7])
    if extra == "dephasing":
        return NoiseModel(dephasing_rate=1e-7)
    if extra == "relaxation":
        return NoiseModel(relaxation_rate=1e-7)
    return None


def run_case(case: dict) -> dict:
    """One real run (worker process).  case keys: phys, backend, rho, optp, reorder, spe, dark (by
    label), given, dim, mode ('run' | 'handset' | 'pulser-trajectory' | 'reduced'), extra_noise,
    shots, seed, obs ('std' | 'nonpermutable')."""
    import torch

    torch.set_num_threads(1)
    import pulser  # noqa: F401
    from pulser.backend import BitStrings, CorrelationMatrix, Energy, Fidelity, Occupation

    from emu_base import PulserData, _verif
    from harness.gen import seqs

    phys = case["phys"]
    n = phys["n"]
    rho = case["rho"]
    backend = case["backend"]
    seed = int(case.get("seed", 0))
    torch.manual_seed(seed)
    random.seed(seed)
    np.random.seed(seed % (2**32))
    out: dict[str, Any] = {"id": case["id"], "outcome": "ok"}
    ets = eval_times(phys)
    ev: list = []
    import emu_mps.optimatrix as optimat_pkg

    orig_opt = optimat_pkg.minimize_bandwidth
    calls = {"n": 0}

    def forced(matrix, *a, **k):
        calls["n"] += 1
        return torch.tensor(case["optp"], dtype=torch.long)

    try:
        seq = seqs.build_sequence(seq_spec(phys, rho))
        shots = int(case.get("shots", 1000))
        tagmode = case.get("tagmode", "base")
        obs = [Energy(evaluation_times=[1.0])]
        for sfx in ([None] if tagmode == "base" else ["x"] if tagmode == "suffix" else [None, "x"]):
            kws = {} if sfx is None else {"tag_suffix": sfx}
            obs += [Occupation(evaluation_times=ets, **kws), CorrelationMatrix(evaluation_times=[1.0], **kws),
                    BitStrings(evaluation_times=[0.0, 1.0], num_shots=shots, **kws)]
        init = None
        amplitudes = None
        if case["given"]:
            amplitudes = {"".join(s[a] for a in rho): amp for s, amp in phys["init"]}
        if case.get("obs") == "nonpermutable":
            # an observable outside emu-mps' permutable set: fidelity with a label-defined product state
            pat = phys["fid_pattern"]
            if backend == "mps":
                from emu_mps import MPS

                fs = MPS.from_state_amplitudes(eigenstates=("r", "g"), amplitudes={"".join(pat[a] for a in rho): 1.0})
            else:
                from emu_sv import StateVector

                fs = StateVector.from_state_amplitudes(eigenstates=("r", "g"), amplitudes={"".join(pat[a] for a in rho): 1.0})
            obs.append(Fidelity(fs, evaluation_times=[1.0]))
        nm = _noise_for_dim(case["dim"], case.get("extra_noise"))
        kw: dict[str, Any] = {"observables": obs, "dt": DT, "log_level": 100}
        if nm is not None:
            kw["noise_model"] = nm
        if backend == "mps":
            from emu_mps import MPS, MPSBackend, MPSConfig

            if amplitudes:
                init = MPS.from_state_amplitudes(eigenstates=("r", "g"), amplitudes=amplitudes)
            cfg = MPSConfig(precision=case.get("precision", 1e-8), optimize_qubit_ordering=bool(case["reorder"]),
                            initial_state=init, **kw)
            B = MPSBackend
            out["cfg_reorder"] = bool(cfg.optimize_qubit_ordering)
        else:
            from emu_sv import StateVector, SVBackend, SVConfig

            if amplitudes:
                init = StateVector.from_state_amplitudes(eigenstates=("r", "g"), amplitudes=amplitudes)
            cfg = SVConfig(krylov_tolerance=1e-10, initial_state=init, gpu=False, **kw)
            B = SVBackend
        optimat_pkg.minimize_bandwidth = forced if case.get("force", True) else orig_opt
        _verif.set_sink(ev)
        mode = case.get("mode", "run")
        if mode in ("run", "reduced"):
            res = B(seq, config=cfg).run()
        else:
            pd = PulserData(sequence=seq, config=cfg, dt=cfg.dt)
            sd = next(iter(pd.get_sequences()))
            bad = tuple(bool(case["dark"][a]) for a in rho)
            if mode == "handset":
                # raw SequenceData: only the marking is set; the backend has to do the rest
                sd = dataclasses.replace(sd, bad_atoms=bad, state_prep_error=0.1)
            elif mode == "handset-pulser":
                # what Pulser's trajectory for this marking looks like: drives and interactions zeroed
                omega, delta, phi = sd.omega.clone(), sd.delta.clone(), sd.phi.clone()
                idx = [k for k in range(n) if bad[k]]
                for t in (omega, delta, phi):
                    t[:, idx] = 0.0
                imc = sd.interaction_matrix
                import copy

                imc2 = copy.copy(imc)
                for name in ("full_matrix", "masked_matrix"):
                    mtx = getattr(imc, name).clone()
                    mtx[idx, :] = 0.0
                    mtx[:, idx] = 0.0
                    setattr(imc2, name, mtx)
                sd = dataclasses.replace(sd, omega=omega, delta=delta, phi=phi, interaction_matrix=imc2,
                                         bad_atoms=bad, state_prep_error=0.1)
            elif mode == "pulser-trajectory":
                # the REAL pipeline: Pulser draws the badly prepared atoms itself (and zeroes their drives and
                # interactions); numpy seeds are tried until its draw is the scenario's mask
                from pulser import NoiseModel

                found = None
                for s in range(seed * 1000, seed * 1000 + 4000):
                    np.random.seed(s % (2**32))
                    kw2 = dict(kw)
                    kw2["noise_model"] = NoiseModel(state_prep_error=0.5)
                    cfg2 = type(cfg)(**{**({"precision": case.get("precision", 1e-8), "optimize_qubit_ordering": bool(case["reorder"])} if backend == "mps" else {"krylov_tolerance": 1e-10, "gpu": False}), **kw2})
                    sd2 = next(iter(PulserData(sequence=seq, config=cfg2, dt=cfg2.dt).get_sequences()))
                    if tuple(bool(b) for b in sd2.bad_atoms) == bad:
                        found = (sd2, cfg2)
                        break
                if found is None:
                    raise MachineryError(f"Pulser never drew the mask {bad} in 4000 seeds")
                sd, cfg = found
                out["pulser_seed"] = s
            else:
                raise MachineryError(f"unknown mode {mode}")
            res = B._run_from_sequence_data(sd, cfg)
        out["forced_calls"] = calls["n"]
        ids = [str(q) for q in res.atom_order]
        out["atom_order"] = [int(q[1:]) if q.startswith("a") and q[1:].isdigit() else UNK for q in ids]
        tags = set(res.get_result_tags())

        def grab(sfx: str) -> dict:
            g: dict[str, Any] = {}
            to, tc, tb = "occupation" + sfx, "correlation_matrix" + sfx, "bitstrings" + sfx
            g["occupation"] = [np.real(np.asarray(o)).astype(float).tolist() for o in getattr(res, to)] if to in tags else None
            g["corr"] = np.real(np.asarray(getattr(res, tc)[-1])).astype(float).tolist() if tc in tags else None
            bsl = getattr(res, tb) if tb in tags else None
            g["bitstrings"] = dict(bsl[-1]) if bsl else None
            g["bitstrings0"] = dict(bsl[0]) if bsl and len(bsl) > 1 else None
            return g

        out.update(grab(""))
        out["occ_times"] = list(res.get_result_times("occupation")) if "occupation" in tags else None
        out["x"] = grab("_x") if tagmode != "base" else None
        out["energy"] = float(res.energy[-1]) if "energy" in tags else None
        ftag = [t for t in tags if t.startswith("fidelity")]
        out["fidelity"] = float(np.real(complex(getattr(res, ftag[0])[-1]))) if ftag else None
    except BaseException as ex:  # the code under test refused / crashed: an outcome, not a harness failure
        if isinstance(ex, (KeyboardInterrupt, MachineryError)):
            raise
        out["outcome"] = f"raise:{type(ex).__name__}:{str(ex)[:100]}"
    finally:
        optimat_pkg.minimize_bandwidth = orig_opt
        _verif.set_sink(None)
    # ---- what the hooks saw (values at the point of use)
    hk: dict[str, Any] = {}
    new = [e for e in ev if e["ev"] == "mps_new"]
    if new:
        hk["perm"] = new[0]["perm"]
        hk["site_order_claim"] = new[0]["atom_order"]
    hu = [e for e in ev if e["ev"] == "h_update"]
    if hu:
        hk["delta0"] = [float(np.real(x)) if not isinstance(x, list) else float(x[0]) for x in hu[0]["delta"]]
        hk["omega0"] = [float(np.real(x)) if not isinstance(x, list) else float(x[0]) for x in hu[0]["omega"]]
    hm = [e for e in ev if e["ev"] == "h_make"]
    if hm:
        hk["matrix_first"] = hm[0]["matrix"]
        hk["matrix_last"] = hm[-1]["matrix"]
        hk["n_make"] = len(hm)
    mi = [e for e in ev if e["ev"] == "mps_init"]
    if mi:
        hk["dark"] = mi[0]["dark"]
        hk["nsites"] = mi[0]["n"]
    fl = [e for e in ev if e["ev"] == "mps_fill" and e.get("due")]
    if fl:
        hk["padded"] = bool(fl[-1]["padded"])
    pm = [e for e in ev if e["ev"] == "mps_permute"]
    if pm:
        hk["permute"] = bool(pm[-1]["permute"])
    svn = [e for e in ev if e["ev"] == "sv_new"]
    if svn:
        hk["sv_dark"] = svn[0]["dark"]
    out["hooks"] = hk
    out["n_events"] = len(ev)
    return out


# ======================================================================================= projection
def tol_for(case: dict, nsteps: int) -> float:
    """Budget of the statement ("up to the configured precision"): truncation precision per bond and
    sweep, plus rounding / Krylov slack; the dense reference itself is exact to ~1e-9 here."""
    n = case["phys"]["n"]
    prec = case.get("precision", 1e-8) if case["backend"] == "mps" else 1e-10
    t = 2e-6 + 20.0 * nsteps * 2 * max(1, n - 1) * prec
    if case["dim"] == 3 or case.get("extra_noise"):
        t += 1e-5  # the negligible (1e-7 / us) channel that switches the code path
    return t


def binom_tail(k: int, m: int, p: float) -> float:
    """two-sided exact binomial tail probability of seeing a count at least as far from m*p as k"""
    from scipy.stats import binom

    p = min(max(p, 0.0), 1.0)
    lo = binom.cdf(k, m, p)
    hi = binom.sf(k - 1, m, p)
    return float(min(1.0, 2 * min(lo, hi)))


def binom_range(k: int, m: int, lo: float, hi: float) -> float:
    """Composite hypothesis p in [lo, hi] (the reference value with its numeric budget): the largest
    p-value over the interval is attained at the admissible p closest to k / m."""
    lo, hi = max(0.0, lo), min(1.0, hi)
    if m == 0:
        return 1.0
    return binom_tail(k, m, min(hi, max(lo, k / m)))


def _match_label(val: float, table: list[float], scale: float = 1.0) -> int:
    hits = [a for a, v in enumerate(table) if abs(v - val) <= 1e-7 * max(1.0, abs(v), scale)]
    return hits[0] if len(hits) == 1 else UNK


def project(case: dict, obs: dict, ref: dict, alpha: float, tol: float | None = None, joint: bool = True) -> dict:
    """Base-tag results and, if the run stored them, the results under the suffixed tags (occX / bitsX / corrX)."""
    tagmode = case.get("tagmode", "base")
    empty = {"occupation": None, "corr": None, "bitstrings": None, "bitstrings0": None}
    if tagmode == "suffix" and obs["outcome"] == "ok":
        rec = _project(case, {**obs, **(obs.get("x") or empty)}, ref, alpha, tol, joint)
        rec.update(occX=rec["occ"], bitsX=rec["bits"], corrX=rec["corr"], occ=[], bits=[], corr=[])
        if rec["numeric"] != "ok" and not rec["numeric"].startswith("energy"):
            rec["numeric"] = "suffixed-" + rec["numeric"]
        return rec
    rec = _project(case, obs, ref, alpha, tol, joint)
    rec.update(occX=[], bitsX=[], corrX=[])
    if tagmode == "both" and obs["outcome"] == "ok":
        rx = _project(case, {**obs, **(obs.get("x") or empty)}, ref, alpha, tol, joint)
        rec.update(occX=rx["occ"], bitsX=rx["bits"], corrX=rx["corr"])
        rec["margin_x"] = rx.get("margin", 0.0)
        rec["bits_pmin"] = min(rec.get("bits_pmin", 1.0), rx.get("bits_pmin", 1.0))
        if rec["numeric"] == "ok" and rx["numeric"] != "ok":
            rec["numeric"] = "suffixed-" + rx["numeric"]
    return rec


def _project(case: dict, obs: dict, ref: dict, alpha: float, tol: float | None = None, joint: bool = True) -> dict:
    """What the real run did, in the vocabulary of QubitOrder.tla.  Numeric atoms are decided here
    (against the per-label reference); TLC evaluates the requirement on the result."""
    phys = case["phys"]
    n = phys["n"]
    rho = case["rho"]
    npos = len(rho)                      # positions of every result (= n, or fewer for a reduced register)
    dark = [bool(x) for x in case["dark"]] if case["spe"] else [False] * n
    mps = case["backend"] == "mps"
    absent = PAD if mps else SV_ABSENT
    site = lambda a: [a, a, a, a if case["given"] else GROUND]  # noqa: E731
    rec: dict[str, Any] = {
        "outcome": "ok" if obs["outcome"] == "ok" else obs["outcome"].split(":")[0] + ":" + obs["outcome"].split(":")[1],
        "atomOrder": [], "ham": [], "imat": [], "occ": [], "bits": [], "corr": [], "numeric": "ok", "margin": 0.0,
    }
    hk = obs.get("hooks", {})
    # ---------------- sites: drive label from the row actually written, interaction label from the matrix actually used
    U = np.asarray(ref["U"])
    if mps and "delta0" in hk:
        d_lab = [OFF if (v == 0.0 and w == 0.0) else _match_label(v, ref["delta0"]) for v, w in zip(hk["delta0"], hk["omega0"])]
        M = np.asarray(hk.get("matrix_last", []), dtype=float)
        ns = len(d_lab)
        m_lab = [UNK] * ns
        pair_of: dict[tuple[int, int], Any] = {}
        if M.ndim == 2 and M.shape[0] == ns and ns >= 2:
            for k in range(ns):
                for l in range(ns):
                    if k == l:
                        continue
                    v = M[k, l]
                    if v == 0.0:
                        pair_of[(k, l)] = None
                        continue
                    hits = [(a, b) for a in range(n) for b in range(a + 1, n) if abs(U[a, b] - v) <= 1e-4 * abs(v)]
                    pair_of[(k, l)] = hits[0] if len(hits) == 1 else "?"
            for k in range(ns):
                cands = None
                for l in range(ns):
                    pr = pair_of.get((k, l))
                    if k == l or pr is None or pr == "?":
                        continue
                    cands = set(pr) if cands is None else cands & set(pr)
                if cands is not None and len(cands) == 1:
                    m_lab[k] = next(iter(cands))
                elif cands is not None and len(cands) == 2 and ns == 2:
                    # two sites: the matrix is symmetric in them -- any assignment is the same physics
                    m_lab[k] = d_lab[k] if d_lab[k] in cands and {d_lab[0], d_lab[1]} == cands else sorted(cands)[k]
                elif cands is None:
                    # all-zero (or unidentified) row: the interactions of this site are off.  That is what atom
                    # d_lab[k] itself looks like when no other site carries a driven atom it interacts with.
                    a = d_lab[k]
                    partners = [d_lab[l] for l in range(ns) if l != k and d_lab[l] >= 0]
                    alone = a >= 0 and all(pair_of.get((k, l)) is None for l in range(ns) if l != k) and all(U[a, b] == 0.0 for b in partners)
                    m_lab[k] = a if alone else OFF
        elif ns <= 1:
            m_lab = list(d_lab)
        rec["ham"] = [[d_lab[k], m_lab[k], m_lab[k], (m_lab[k] if case["given"] else GROUND)] for k in range(ns)]
        imat = [[[m_lab[k], m_lab[k]] for _ in range(ns)] for k in range(ns)]
        for k in range(ns):
            for l in range(ns):
                if k == l:
                    continue
                pr = pair_of.get((k, l))
                if pr is None:
                    imat[k][l] = [OFF, OFF]           # a zero entry: no interaction between these sites
                elif pr == "?":
                    imat[k][l] = [UNK, UNK]
                else:
                    a, b = pr
                    imat[k][l] = [b, a] if m_lab[k] == b else [a, b]
        rec["imat"] = imat
        rec["site_drive"] = d_lab
        rec["site_imat"] = m_lab
    if obs["outcome"] != "ok":
        return rec
    rec["atomOrder"] = obs["atom_order"]
    # ---------------- results: which label does each position report?
    nsteps = len(ref["target_times"]) - 1
    tol = float(tol) if tol is not None else tol_for(case, nsteps)
    rec["tol"] = tol
    rocc = np.asarray(ref["occ"])
    worst = 0.0
    occ_tags = []
    if obs["occupation"] is None or len(obs["occupation"]) != rocc.shape[0]:
        rec["numeric"] = "occupation-missing-or-wrong-times"
        occ = None
    else:
        occ = np.asarray(obs["occupation"])
    for j in range(npos):
        a = rho[j]
        if occ is None or occ.ndim != 2 or occ.shape[1] != npos:
            occ_tags.append(UNKNOWN)
            continue
        err = float(np.max(np.abs(occ[:, j] - rocc[:, a])))
        worst = max(worst, err / tol)
        if err <= tol:
            occ_tags.append(absent if dark[a] else site(a))
        else:
            others = [b for b in range(n) if float(np.max(np.abs(occ[:, j] - rocc[:, b]))) <= tol]
            occ_tags.append((absent if dark[others[0]] else site(others[0])) if len(others) == 1 else UNKNOWN)
    rec["occ"] = occ_tags
    # correlations
    rc = np.asarray(ref["corr"])
    corr_tags = []
    if obs["corr"] is None or np.asarray(obs["corr"]).shape != (npos, npos):
        rec["numeric"] = "correlation-missing"
        corr_tags = [[[UNKNOWN, UNKNOWN] for _ in range(npos)] for _ in range(npos)]
    else:
        C = np.asarray(obs["corr"])
        for i in range(npos):
            row = []
            for j in range(npos):
                err = abs(C[i, j] - rc[rho[i], rho[j]])
                worst = max(worst, err / tol)
                ti = absent if dark[rho[i]] else site(rho[i])
                tj = absent if dark[rho[j]] else site(rho[j])
                row.append([ti, tj] if err <= tol else [UNKNOWN, UNKNOWN])
            corr_tags.append(row)
    rec["corr"] = corr_tags
    # energy: a scalar, unchanged by any relabelling
    if obs["energy"] is None:
        rec["numeric"] = "energy-missing"
    else:
        scale = max(1.0, abs(ref["energy"]), float(np.max(np.abs(U))) if U.size else 1.0)
        err = abs(obs["energy"] - ref["energy"])
        worst = max(worst, err / (tol * scale * 4))
        if err > tol * scale * 4 and rec["numeric"] == "ok":
            rec["numeric"] = "energy-changed"
    # bitstrings: position j of every sampled string is atom rho[j].  Exact binomial tests of the
    # one-atom and two-atom marginals against the reference occupations / correlations (and, where the
    # reference is exact, of every outcome); family-wise error rate alpha-per-test * tests.
    bits_tags = []
    bs = obs["bitstrings"]
    if bs is None:
        rec["numeric"] = "bitstrings-missing"
        bits_tags = [UNKNOWN] * npos
    else:
        shots = sum(bs.values())
        ok_len = all(len(s) == npos and set(s) <= {"0", "1"} for s in bs)
        pmin = 1.0
        eps = 2 * tol

        def ptest(k: int, m: int, p: float, is_dark: bool) -> float:
            # a dark atom is NEVER measured in r; otherwise the reference value is known up to the budget
            return (1.0 if k == 0 else 0.0) if is_dark else binom_range(k, m, p - eps, p + eps)

        pfin = [float(rocc[-1, a]) for a in range(n)]
        pini = [float(rocc[0, a]) for a in range(n)]
        bs0 = obs.get("bitstrings0")
        ok0 = bs0 is not None and all(len(s) == npos and set(s) <= {"0", "1"} for s in bs0)
        for j in range(npos):
            a = rho[j]
            if not ok_len:
                bits_tags.append(UNKNOWN)
                continue
            ones = sum(c for s, c in bs.items() if s[j] == "1")
            ones0 = sum(c for s, c in bs0.items() if s[j] == "1") if ok0 else None

            def pval(b: int) -> float:
                pv1 = ptest(ones, shots, pfin[b], dark[b])
                if ones0 is not None:  # the samples taken at t = 0 show the initial letters
                    pv1 = min(pv1, ptest(ones0, sum(bs0.values()), pini[b], dark[b]))
                return pv1

            pv = pval(a)
            pmin = min(pmin, pv)
            if pv >= alpha:
                bits_tags.append(absent if dark[a] else site(a))
            else:
                alt = [b for b in range(n) if pval(b) >= alpha]
                bits_tags.append((absent if dark[alt[0]] else site(alt[0])) if len(alt) == 1 else UNKNOWN)
        if ok_len and all(t != UNKNOWN for t in bits_tags):
            for i in range(npos):
                for j in range(i + 1, npos):
                    both = sum(c for s, c in bs.items() if s[i] == "1" and s[j] == "1")
                    pv = ptest(both, shots, float(rc[rho[i], rho[j]]), dark[rho[i]] or dark[rho[j]])
                    pmin = min(pmin, pv)
                    if pv < alpha and rec["numeric"] == "ok":
                        rec["numeric"] = "bitstring-distribution-changed"
            if ref.get("probs") is not None and joint:
                probs = ref["probs"]
                cnt: Counter = Counter()
                for s, c in bs.items():
                    lab = ["0"] * n
                    for j in range(npos):
                        lab[rho[j]] = s[j]
                    cnt["".join(lab)] += c
                for s in set(cnt) | set(probs):
                    pr = probs.get(s, 0.0)
                    zero = any(dark[a] and s[a] == "1" for a in range(n))
                    pv = ptest(cnt.get(s, 0), shots, pr, zero)
                    pmin = min(pmin, pv)
                    if pv < alpha and rec["numeric"] == "ok":
                        rec["numeric"] = "bitstring-distribution-changed"
        rec["bits_pmin"] = pmin
    rec["bits"] = bits_tags
    rec["margin"] = worst
    if not mps:
        # emu-sv has no site-level hook: its index handling is observed through the results only
        rec["ham"] = list(occ_tags)
        rec["imat"] = []
    return rec


# ======================================================================================= TLC glue
OBS_FIELDS = ("outcome", "atomOrder", "ham", "imat", "occ", "bits", "corr", "occX", "bitsX", "corrX", "numeric")
SCEN_FIELDS = ["backend", "n", "rho", "optp", "reorder", "spe", "dark", "given", "dim", "tagmode"]


def scen_of(case: dict) -> dict:
    n = case["phys"]["n"]
    return {
        "backend": case["backend"], "n": n, "rho": list(case["rho"]), "optp": list(case["optp"]),
        "reorder": bool(case["reorder"]), "spe": bool(case["spe"]),
        "dark": [bool(x) for x in case["dark"]] if case["spe"] else [False] * n,
        "given": bool(case["given"]), "dim": int(case["dim"]), "tagmode": case.get("tagmode", "base"),
    }


def scen_key(sc: dict) -> str:
    return json.dumps([sc[k] for k in SCEN_FIELDS])


def parse_S(t: list) -> tuple[dict, dict]:
    """<<"S", backend, n, rho, optp, reorder, spe, darkbits, given, dim, tagmode, outcome, qperm, atomOrder, ham, wp, occ, bits, occX, bitsX, verdict, pair>>"""
    sc = {"backend": t[1], "n": t[2], "rho": t[3], "optp": t[4], "reorder": t[5], "spe": t[6], "dark": t[7], "given": t[8], "dim": t[9], "tagmode": t[10]}
    pred = {"outcome": t[11], "qperm": t[12], "atomOrder": t[13], "ham": t[14], "wp": t[15], "occ": t[16], "bits": t[17], "occX": t[18], "bitsX": t[19],
            "verdict": t[20], "pair": t[21]}
    return sc, pred


def qo_cfg(variant: str, maxn: int, dim3: int, pair: int, backends: str, focus: str, fromfile: bool, log: bool, invs: list[str],
           tagmodes: str = "cTagsBase") -> str:
    t = f"""SPECIFICATION Spec
CONSTANTS
  V <- {variant}
  MaxN = {maxn}
  MaxNDim3 = {dim3}
  MaxNPair = {pair}
  Backends <- {backends}
  TagModes <- {tagmodes}
  Focus = "{focus}"
  FromFile = {"TRUE" if fromfile else "FALSE"}
  Log = {"TRUE" if log else "FALSE"}
INVARIANT InvRunAllAgrees
"""
    for i in invs:
        t += f"INVARIANT {i}\n"
    if log:
        t += "INVARIANT LogFinished\n"
    return t


def tlc_predictions(ctx, name: str, variant: str, *, maxn: int = 0, scen_file: Path | None = None, backends: str = "cBoth",
                    focus: str = "all", dim3: int = 0, pair: int = 0, workers: int = 16, tagmodes: str = "cTagsBase") -> dict[str, dict]:
    """Scenario -> what the mechanism model predicts (enumerated, or for the scenarios of a file)."""
    env = {"SCEN_FILE": str(scen_file)} if scen_file else None
    res = run_tlc("MCQubitOrder", None, workdir=ctx.work, name=name, workers=workers, env=env,
                  cfg_text=qo_cfg(variant, max(maxn, 2), dim3, pair, backends, focus, scen_file is not None, True, [], tagmodes))
    if res["violated"]:
        raise MachineryError(f"TLC run {name}: unexpected violation {res['violated']} (see {res['outfile']})")
    ctx.add_tlc(res)
    out = {}
    for t in printed_tuples(res["out"], "S"):
        sc, pred = parse_S(t)
        out[scen_key(sc)] = pred
    return out


def tlc_observed(ctx, name: str, records: list[dict], chunk: int = 3000) -> dict[Any, tuple[str, str]]:
    """TLC evaluates the REQUIREMENT of QubitOrder.tla on records projected from real runs.
    Returns id -> (full verdict, result-level verdict)."""
    out: dict[Any, tuple[str, str]] = {}
    for c0 in range(0, len(records), chunk):
        part = records[c0:c0 + chunk]
        f = ctx.work / f"observed_{name}_{c0}.json"
        f.write_text(json.dumps(part))
        res = run_tlc("MCQubitOrderObs", None, workdir=ctx.work, name=f"observed_{name}_{c0}", workers=4, env={"OBS_FILE": str(f)},
                      cfg_text="SPECIFICATION ObsSpec\nCONSTANTS\n  V <- cV1111\n  MaxN = 2\n  MaxNDim3 = 0\n  MaxNPair = 0\n  Backends <- cBoth\n  TagModes <- cTagsBase\n  Focus = \"all\"\n  FromFile = FALSE\n  Log = FALSE\nINVARIANT ObsVerdictPrinted\n")
        if res["violated"]:
            raise MachineryError(f"TLC observed-structure run {name}: {res['violated']} (see {res['outfile']})")
        ctx.add_tlc(res)
        for t in printed_tuples(res["out"], "O"):
            out[t[1]] = (t[2], t[3])
        for r in part:
            if r["id"] not in out:
                raise MachineryError(f"no verdict for observed record {r['id']} in {name} (see {res['outfile']})")
    return out


def detect_variant(ctx) -> tuple[str, dict]:
    """Which revision of the mechanism does the tree under test follow?  Three direct probes of the
    real code (hook values at the point of use / outcome), never a version string."""
    rng = random.Random(12345)
    phys = gen_phys(rng, 3, slm=False, given=False)
    base = {"phys": phys, "backend": "mps", "given": False, "dim": 2, "shots": 50, "seed": 1}
    p1 = run_case({**base, "id": "probe-site-order", "rho": [0, 1, 2], "optp": [2, 0, 1], "reorder": True, "spe": False, "dark": [False] * 3, "mode": "run"})
    ref = reference(phys, [False] * 3)
    d_lab = [_match_label(v, ref["delta0"]) for v in p1.get("hooks", {}).get("delta0", [])]
    if p1["outcome"] != "ok" or len(d_lab) != 3 or UNK in d_lab:
        raise MachineryError(f"variant probe 1 failed: {p1['outcome']} hooks={p1.get('hooks')}")
    site_order = d_lab == [2, 0, 1]
    p2 = run_case({**base, "id": "probe-pad-dim", "rho": [0, 1, 2], "optp": [0, 1, 2], "reorder": False, "spe": True, "dark": [False, True, False], "dim": 3, "mode": "handset"})
    pad_dim = p2["outcome"] == "ok"
    phys2 = gen_phys(rng, 2, slm=False, given=False)
    p3 = run_case({**base, "phys": phys2, "id": "probe-small", "rho": [0, 1], "optp": [0, 1], "reorder": False, "spe": True, "dark": [False, True], "mode": "handset"})
    small = p3["outcome"] == "ok"
    p4 = run_case({**base, "id": "probe-suffixed-tags", "rho": [0, 1, 2], "optp": [2, 0, 1], "reorder": True, "spe": False, "dark": [False] * 3, "mode": "run", "tagmode": "both"})
    if p4["outcome"] != "ok" or not p4.get("x") or p4["x"]["occupation"] is None or p4["occupation"] is None:
        raise MachineryError(f"variant probe 4 failed: {p4['outcome']}")
    all_tags = bool(np.allclose(np.asarray(p4["x"]["occupation"]), np.asarray(p4["occupation"]), atol=1e-9))
    info = {"drive_labels_at_sites_for_perm_201": d_lab, "leakage_padding_outcome": p2["outcome"], "one_good_atom_outcome": p3["outcome"],
            "occupation_x_equals_occupation_for_perm_201": all_tags}
    return VARIANTS[(site_order, pad_dim, small, all_tags)], info


def all_perms(n: int) -> list[list[int]]:
    return [list(p) for p in itertools.permutations(range(n))]


# ======================================================================================= replay engine
LOOSE_FLOOR = {"plain": 1e-2, "given": 5e-2, "slm": 0.5}


def flavour(phys: dict) -> str:
    return "slm" if phys["slm"] else ("given" if phys["init"] else "plain")


def loose_tol(case: dict, nsteps: int) -> float:
    """Budget for a TDVP run against the EXACT dense reference.  2-site TDVP started from a product
    state has a projection error that the configured precision does not control (measured on the
    repaired tree, dt = 10 ns, forced site orders, n <= 5: plain <= 3e-5, given <= 6e-4, SLM switch-on
    <= 5e-2; floors 1e-2 / 5e-2 / 0.5); the statement grants "discretisation error", so this comparison only
    pins labels grossly.
    The sharp oracle is the same-site-order run (see tight_ref_case)."""
    if case["phys"]["n"] > 5:
        # beyond the sizes where the error was measured (6e-3 seen at 10 atoms in a scrambled order) only a
        # gross mismatch of the values is an alarm; labels are pinned by the tight oracle and the site-level hooks
        return 0.3
    return max(tol_for(case, nsteps), LOOSE_FLOOR[flavour(case["phys"])])


def site_order(case: dict) -> list[int]:
    """The REQUIRED site order of a scenario: atom rho[optp[k]] at site k (register order if reordering is off)."""
    rho = case["rho"]
    return [rho[k] for k in case["optp"]] if case["reorder"] and case["backend"] == "mps" else list(rho)


def tight_ref_case(case: dict, policy: str) -> tuple[str, dict] | None:
    """The run that must be the SAME computation as `case` if every index space is handled correctly:
    'same-site-order': the register inserted directly in the required site order, reordering off
                       (no permutation logic runs at all);
    'reduced':         additionally without the dark atoms (C25: "as in the same sequence without the bad atoms")."""
    if case["backend"] != "mps":
        return None
    n = case["phys"]["n"]
    sig = site_order(case)
    dark = [bool(x) for x in case["dark"]] if case["spe"] else [False] * n
    if policy == "same-site-order":
        if not case["reorder"]:
            return None
        rc = {**case, "rho": sig, "optp": list(range(n)), "reorder": False, "force": False}
    elif policy == "reduced":
        if not any(dark):
            if not case["reorder"]:
                return None
            rc = {**case, "rho": sig, "optp": list(range(n)), "reorder": False, "force": False}
        else:
            good = [a for a in sig if not dark[a]]
            if len(good) < 2:
                return None
            rc = {**case, "rho": good, "optp": list(range(len(good))), "reorder": False, "force": False, "spe": False,
                  "dark": [False] * n, "mode": "reduced"}
    else:
        raise MachineryError(policy)
    rc["tagmode"] = "base"
    key = json.dumps([case["phys"]["id"], rc["rho"], rc["dark"] if rc["spe"] else None, rc["given"], rc["dim"], rc.get("mode"), rc.get("extra_noise"), rc.get("precision")])
    rc["id"] = "ref:" + key
    rc["is_ref"] = True
    return key, rc


def _dense_job(job: tuple) -> dict:
    return reference(job[0], job[1], job[2])


def replay_cases(ctx, cases: list[dict], *, policy: str, name: str, alpha: float, procs: int | None = None) -> list[dict]:
    """Run the cases and their same-computation references on the real code, decide the numeric atoms,
    let TLC evaluate the requirement of QubitOrder.tla on every projected run."""
    pmap = pool_map

    refcases: dict[str, dict] = {}
    link: dict[Any, str] = {}
    for c in cases:
        r = tight_ref_case(c, policy)
        if r is not None:
            refcases.setdefault(r[0], r[1])
            link[c["id"]] = r[0]
    allc = cases + list(refcases.values())
    ctx.log(f"{name}: {len(cases)} scenario runs + {len(refcases)} same-computation reference runs")
    outs = pmap(run_case, allc, chunksize=max(1, len(allc) // 400))
    by_id = {o["id"]: o for o in outs}
    dense: dict[str, dict] = {}

    def dense_ref(c: dict) -> dict:
        dark = [(a not in c["rho"]) or bool(c["spe"] and c["dark"][a]) for a in range(c["phys"]["n"])]
        k = ref_key(c["phys"]["id"], dark, c["dim"])
        if k not in dense:
            dense[k] = reference(c["phys"], dark, c["dim"])
        return dense[k]

    need = {}
    for c in allc:
        dk = [(a not in c["rho"]) or bool(c["spe"] and c["dark"][a]) for a in range(c["phys"]["n"])]
        need.setdefault(ref_key(c["phys"]["id"], dk, c["dim"]), (c["phys"], dk, c["dim"]))
    keys = list(need)
    for k, r in zip(keys, pmap(_dense_job, [need[k] for k in keys], chunksize=max(1, len(keys) // 200))):
        dense[k] = r
    results = []
    run_refs: dict[str, dict | None] = {}
    records = []
    for c in allc:
        o = by_id[c["id"]]
        dref = dense_ref(c)
        nsteps = len(dref["target_times"]) - 1
        kind = "dense"
        ref, tol, joint = dref, (tol_for(c, nsteps) if c["backend"] == "sv" else loose_tol(c, nsteps)), c["backend"] == "sv"
        if not c.get("is_ref") and c["id"] in link:
            k = link[c["id"]]
            if k not in run_refs:
                rc = refcases[k]
                # for the reduced register the reference run's dense reference differs only in labels kept
                run_refs[k] = ref_from_run(rc, by_id[rc["id"]], dense_ref(c))
            if run_refs[k] is not None:
                ref, tol, joint, kind = run_refs[k], tol_for(c, nsteps), False, "same-computation-run"
        rec = project(c, o, ref, alpha, tol=tol, joint=joint)
        results.append({"case": c, "obs": o, "rec": rec, "ref_kind": kind})
        records.append({"id": len(records) + 1, "sc": scen_of(c) if len(c["rho"]) == c["phys"]["n"] else None, "obs": rec})
    # reduced-register reference runs have fewer atoms than the scenario vocabulary: give them their own scenario
    for r, x in zip(records, results):
        if r["sc"] is None:
            c = x["case"]
            m = len(c["rho"])
            lab = {a: i for i, a in enumerate(sorted(c["rho"]))}
            r["sc"] = {"backend": c["backend"], "n": m, "rho": [lab[a] for a in c["rho"]], "optp": list(range(m)), "reorder": False,
                       "spe": False, "dark": [False] * m, "given": bool(c["given"]), "dim": int(c["dim"]), "tagmode": c.get("tagmode", "base")}
            r["obs"] = relabel_record(x["rec"], lab, c["phys"]["n"], c["rho"])
        r["obs"] = {k: r["obs"][k] for k in OBS_FIELDS}
    verd = tlc_observed(ctx, name, records)
    ctx.traces_validated += len(records)
    for r, x in zip(records, results):
        x["verdict_full"], x["verdict_res"] = verd[r["id"]]
    return results


def relabel_record(rec: dict, lab: dict[int, int], n: int, kept: list[int]) -> dict:
    """Rename labels (for a reduced-register run: kept labels -> 0..m-1) and drop absent positions."""
    def f(x: Any) -> Any:
        if isinstance(x, list):
            return [f(y) for y in x]
        return lab.get(x, x) if isinstance(x, int) and x >= 0 else x

    out = dict(rec)
    for k in ("atomOrder", "ham", "imat", "occ", "bits", "corr", "occX", "bitsX", "corrX"):
        out[k] = f(rec[k])
    return out
