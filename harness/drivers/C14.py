"""C14 - Observables are recorded exactly at their requested times.

(1) TLC: ObsSchedule.tla -- mechanism = one backend run applying the observables at every target time
    through the code's two-stage filter (backend _is_evaluation_time with tolerance 1e-10 on own OR
    default times, then pulser's Observable.__call__ with tolerance 0.5/total_duration, then
    Results._store) -- requirement = recorded points == requested points, once each, increasing, run
    does not fail.  Variant "code" (as written) is expected to violate NoUnrequested (an observable with
    own times is also recorded at a default time closer than 0.5 ns); variant "fixed" (default times
    only for observables without own times) holds; NearDup = TRUE shows what duplicated target points
    (TimeGrid.tla under rounding) do to OnceEach / NoRaise.
(2) Binding A: every TLC-enumerated schedule (2 observables with own times or none, default times,
    points on / next to / away from multiples of dt, 0, next to the end, the end) is instantiated
    literally (3, 4, 10 ns sequences) and as analogous schedules on 40..1000 ns sequences and run on
    emu-sv, emu-mps (TDVP) and DMRG with 2 atoms; Results.get_result_times(tag) is compared with the
    REQUESTED times (verdict) and with both model variants (which mechanism the code follows; drift).
    A free stratum adds linspace / rational / irrational / near-coincident times, time 0, dt not
    dividing the duration, modulation.
(3) Hook events sv_obs / mps_fill: the times at which the stored count of a tag grows are the times
    reported by get_result_times (consistency of observation, R3).
"""
from __future__ import annotations

import json
import math
import os
from fractions import Fraction
from typing import Any

from harness.core import Ctx, MachineryError
from harness.pool import pmap
from harness.ref import timegrid as tg
from harness.tlc import parse_counterexample, printed_tuples, run_tlc

WORKERS = int(os.environ.get("VERIF_TLC_WORKERS", "16"))
REQ_INVS = ["NoUnrequested", "NoneMissing", "OnceEach", "Increasing", "NoRaise"]

# model configuration (D ticks, dt ticks, g) -> real instantiations (duration ns, dt ns, pool in ns);
# model pool = [0, g, g+1, g+4, D-1, D] (ticks of 0.25 ns)
INSTANCES = {
    (16, 6): {"g": 6, "real": [(4, 1.5, [0, 1.5, 1.75, 2.5, 3.75, 4]), (100, 30.0, [0, 30, 30.25, 31, 99.75, 100]), (1000, 300.0, [0, 300, 300.25, 301, 999.75, 1000])]},
    (12, 4): {"g": 4, "real": [(3, 1.0, [0, 1, 1.25, 2, 2.75, 3]), (90, 30.0, [0, 30, 30.25, 60, 89.75, 90])]},
    (40, 40): {"g": 20, "real": [(10, 10.0, [0, 5, 5.25, 6, 9.75, 10]), (50, 50.0, [0, 25, 25.25, 26, 49.75, 50])]},
    (16, 20): {"g": 8, "real": [(4, 5.0, [0, 2, 2.25, 3, 3.75, 4]), (40, 64.0, [0, 20, 20.25, 21, 39.75, 40])]},
}


def model_pool(D: int, g: int) -> list[int]:
    return [0, g, g + 1, g + 4, D - 1, D]


def cfg_text(scn: str, variant: str, neardup: bool, log: bool, invs: list[str]) -> str:
    t = f"""SPECIFICATION Spec
CONSTANTS
  Scenarios <- {scn}
  TolP = 2
  Variant = "{variant}"
  NearDup = {"TRUE" if neardup else "FALSE"}
  LogResult = {"TRUE" if log else "FALSE"}
"""
    for i in invs:
        t += f"INVARIANT {i}\n"
    if log:
        t += "INVARIANT Log\n"
    return t


# ------------------------------------------------------------------------------------------------
def obs_case(spec: dict) -> dict:
    """Run one schedule on one backend; return the recorded times per observable."""
    import numpy as np
    import torch

    from emu_base import _verif
    from harness.drivers.C21 import _observables, _sequence

    torch.manual_seed(0)
    np.random.seed(0)
    out: dict[str, Any] = {"id": spec["id"]}
    ev: list = []
    try:
        seq = _sequence(spec["D"], spec["mod"], 2)
        obs = _observables(spec)
        kw: dict[str, Any] = {}
        if spec["default"] is not None:
            kw["default_evaluation_times"] = spec["default"]
        out["Deff"] = int(seq.get_duration(include_fall_time=spec["mod"]))
        if spec["backend"] == "sv":
            from emu_sv import SVBackend, SVConfig

            cfg = SVConfig(dt=spec["dt"], observables=obs, with_modulation=spec["mod"], log_level=100, **kw)
            be = SVBackend(seq, config=cfg)
        else:
            from emu_mps import MPSBackend, MPSConfig
            from emu_mps.solver import Solver

            if spec["backend"] == "dmrg":
                kw["solver"] = Solver.DMRG
            cfg = MPSConfig(dt=spec["dt"], observables=obs, with_modulation=spec["mod"], log_level=100, **kw)
            be = MPSBackend(seq, config=cfg)
        out["tags"] = [o.tag for o in obs]
    except Exception as ex:
        out["invalid"] = f"{type(ex).__name__}: {ex}"[:300]
        return out
    _verif.set_sink(ev)
    try:
        res = be.run()
        times = {}
        for tag in out["tags"]:
            try:
                times[tag] = [float(t) for t in res.get_result_times(tag)]
            except Exception:
                times[tag] = []          # never stored
        out["times"] = times
    except Exception as ex:
        out["raises"] = f"{type(ex).__name__}: {ex}"[:300]
        try:   # classification only: does the grid of this input contain duplicated points?
            from emu_base.pulser_adapter import _get_target_times

            out["targets"] = [float(t) for t in _get_target_times(seq, cfg, spec["dt"])]
        except Exception:
            pass
    finally:
        _verif.set_sink(None)
    evt: dict[str, list] = {}
    n_apply = 0
    for e in ev:
        if e["ev"] in ("sv_obs", "mps_fill"):
            n_apply += 1
            for tag, n in e["after"].items():
                if n > e["before"].get(tag, 0):
                    evt.setdefault(tag, []).append(float(e["t"]))
    out["ev_times"] = evt
    out["n_apply"] = n_apply
    return out


# ------------------------------------------------------------------------------------------------
def requested_of(spec: dict, j: int) -> list[float]:
    own = spec["obs"][j]
    if own is not None:
        return list(own)
    return list(spec["default"]) if spec["default"] is not None else [1.0]


def a_specs(ctx: Ctx, scen: list[dict]) -> list[dict]:
    """Instantiate the TLC scenarios on real durations."""
    specs = []
    rng = ctx.rng
    for i, s in enumerate(scen):
        inst = INSTANCES[(s["D"], s["dt"])]
        pool = model_pool(s["D"], inst["g"])
        reals = [inst["real"][i % len(inst["real"])]]      # literal / analogous instantiations in turn
        if not ctx.quick and i % 16 == 0:
            reals = inst["real"]                           # every 16th schedule on all of them
        for (Dn, dtn, pool_ns) in reals:
            m = {q: p / Dn for q, p in zip(pool, pool_ns)}
            obs = [sorted(m[q] for q in o["own"]) if o["has"] else None for o in s["obs"]]
            specs.append({"stratum": "A", "scn": i, "D": Dn, "dt": dtn, "mod": False, "obs": obs, "default": sorted(m[q] for q in s["dflt"]),
                          "map": {str(q): m[q] for q in pool}})
    return specs


def r_specs(ctx: Ctx) -> list[dict]:
    import numpy as np

    rng = ctx.rng
    lin = [float(x) for x in np.linspace(0, 1, 11)]
    fixed = [
        {"D": 100, "dt": 10.0, "obs": [lin], "default": None},
        {"D": 100, "dt": 10.0, "obs": [None], "default": lin},
        {"D": 100, "dt": 10.0, "obs": [[0.3]], "default": None},
        {"D": 100, "dt": 10.0, "obs": [[0.3], [0.1 * 3]], "default": None},
        {"D": 100, "dt": 10.0, "obs": [[0.5], None], "default": [0.503, 1.0]},
        {"D": 100, "dt": 10.0, "obs": [[0.5], None], "default": [0.52, 1.0]},
        {"D": 100, "dt": 10.0, "obs": [[0.0]], "default": None},
        {"D": 100, "dt": 10.0, "obs": [[0.0, 1.0], None], "default": [0.0]},
        {"D": 100, "dt": 7.0, "obs": [[math.sqrt(0.5), math.pi / 4]], "default": None},
        {"D": 100, "dt": 7.0, "obs": [[1 / 3], [2 / 3, 1.0]], "default": None},
        {"D": 100, "dt": 200.0, "obs": [[0.25, 0.75]], "default": None},
        {"D": 63, "dt": 0.7, "obs": [None], "default": None},
        {"D": 64, "dt": 0.5, "obs": [[0.0, 0.123, 1.0]], "default": None},
        {"D": 10, "dt": 0.1, "obs": [[0.3, 0.7]], "default": None},
        {"D": 187, "dt": 1.1, "obs": [[1.0]], "default": None},
        {"D": 20, "dt": 10.0, "obs": [[0.5], None], "default": [0.25, 1.0], "mod": True},
        {"D": 20, "dt": 7.5, "obs": [[0.0, 1 / 3, 1.0]], "default": None, "mod": True},
        {"D": 40, "dt": 10.0, "obs": [[float(x) for x in np.linspace(0, 1, 5)], [float(x) for x in np.arange(0, 1.01, 0.25)]], "default": None},
        # long sequences: one ulp near the end exceeds 1e-12 ns; requested times coincide with multiples of dt up to rounding
        {"D": 16000, "dt": 1600.0, "obs": [lin], "default": None},
        {"D": 9600, "dt": 960.0, "obs": [None, [0.3, 0.7]], "default": lin},
        {"D": 12000, "dt": 12000 / 7, "obs": [[k / 7 for k in range(8)]], "default": None},
    ]
    specs = [dict(s, stratum="R", mod=s.get("mod", False)) for s in fixed]
    for _ in range(ctx.pick(100, 600)):
        D = rng.choice([13, 50, 100, 257, 1000])
        dt = rng.choice([0.5, 1.0, 3.0, 7.0, 10.0, 12.5, 2.0 * D])
        if D / dt > 120:
            dt = 10.0

        def times() -> list[float]:
            k = rng.choice(["kn", "dec", "irr", "ends", "lin"])
            if k == "kn":
                n = rng.choice([3, 4, 7, 10, 12])
                return sorted({j / n for j in rng.sample(range(n + 1), rng.randint(1, min(3, n)))})
            if k == "dec":
                return sorted({round(rng.random(), 3) for _ in range(rng.randint(1, 3))})
            if k == "irr":
                return sorted(rng.sample([math.sqrt(0.5), math.pi / 4, math.e / 10, 1 / 7, 2 ** -0.5 / 3], rng.randint(1, 2)))
            if k == "lin":
                return [float(x) for x in np.linspace(0, 1, rng.choice([3, 5, 9]))]
            return sorted({0.0, 1.0} if rng.random() < 0.5 else {0.0})
        nobs = rng.randint(1, 3)
        obs = [None if rng.random() < 0.3 else times() for _ in range(nobs)]
        dflt = times() if rng.random() < 0.7 else None
        specs.append({"stratum": "R", "D": D, "dt": float(dt), "mod": rng.random() < 0.15, "obs": obs, "default": dflt})
    return specs


def decidable(spec: dict, Deff: int) -> bool:
    """Skip inputs whose verdict the statement does not decide: different times in the grey zone
    (neither the same point nor clearly apart) or exactly half a nanosecond apart."""
    pts = set()
    for j in range(len(spec["obs"])):
        pts |= {Fraction(float(e)) * Deff for e in requested_of(spec, j)}
    if spec["default"] is not None:
        pts |= {Fraction(float(e)) * Deff for e in spec["default"]}
    M, _ = tg.intended(Deff, spec["dt"], [])
    allp = sorted(pts | set(M))
    if not tg.well_separated(allp, sep=1e-4):
        return False
    ps = sorted(pts)
    half = Fraction(1, 2)
    eps = Fraction(1, 10 ** 6)
    for i, a in enumerate(ps):
        for b in ps[i + 1:]:
            if abs((b - a) - half) < eps:
                return False
    return True


class Reporter:
    CAP = 3

    def __init__(self, ctx: Ctx):
        self.ctx = ctx
        self.counts: dict[str, int] = {}

    def violation(self, key: str, what: str, replay: Any) -> None:
        self.counts[key] = self.counts.get(key, 0) + 1
        if self.counts[key] <= self.CAP:
            self.ctx.violation(key, what, replay)


def judge(spec: dict, res: dict) -> list[tuple[str, str, Any]]:
    """Requirement of C14 on one real run -> list of (key, what, witness)."""
    fam = "sv" if spec["backend"] == "sv" else "mps"
    out = []
    if "raises" in res:
        dupl = False
        if res.get("targets"):
            T = res["targets"]
            (Tq,) = tg.project([T])
            dupl = any(a == b for a, b in zip(Tq, Tq[1:])) or T[-1] != res["Deff"]
        key = f"run-raises:near-duplicate-target-times:{fam}" if dupl else f"run-raises:{res['raises'].split(':')[0]}:{fam}"
        out.append((key, f"{spec['backend']} run raises instead of recording the observables: {res['raises']}", {"target_times": res.get("targets")}))
        return out
    dflt = spec["default"] if spec["default"] is not None else [1.0]
    for j, tag in enumerate(res["tags"]):
        rec = res["times"].get(tag, [])
        req = requested_of(spec, j)
        bad = tg.match_recorded(req, rec)
        for clause, wit in bad.items():
            if clause == "unrequested":
                at_default = spec["obs"][j] is not None and all(any(abs(w - d) <= tg.REL_RES for d in dflt) for w in wit)
                key = f"recorded-at-unrequested-time:{'own-times-observable-at-default-time' if at_default else 'other'}:{fam}"
            elif clause == "missing":
                key = f"requested-time-not-recorded:{'t=0' if wit == [0.0] else 'other'}:{fam}"
            elif clause == "repeated":
                key = f"recorded-more-than-once:{fam}"
            else:
                key = f"not-increasing:{fam}"
            out.append((key, f"{spec['backend']}: observable {tag} requested at {req} is recorded at {rec} ({clause}: {wit})", {"tag": tag, "requested": req, "recorded": rec}))
    return out


def run(ctx: Ctx) -> None:
    ctx.level = "model_checking"
    rep = Reporter(ctx)
    ctx.assumptions += [
        "pulser Observable.__call__ / Results._store / EmulationConfig validation are the trusted second stage (pulser-core 1.9.1); their behaviour is transcribed in ObsSchedule.tla and observed through Results.get_result_times",
        "times are compared at 1e-9 (relative); requested times closer than that are one request; inputs with different times closer than 1e-4 ns or exactly 0.5 ns apart are not decided by the statement and are skipped (counted)",
        "'computed from the state at exactly that time' (values) is decided by C01/C02/C13, this check decides the times",
        "2 atoms, constant pulse; hooks sv_obs / mps_fill only for the consistency cross-check",
    ]
    procs = int(os.environ.get("VERIF_PROCS", "16"))
    scn = ctx.pick("cQuick", "cAll")

    # ---------------------------------------------------------------- (1) TLC
    # ObsSchedule's state graph is one wide, shallow fan: TLC is fastest on it with ONE worker (measured: 21 s with 1,
    # 39 s with 4, 115 s with 16 workers for 20 k states); the independent runs are started side by side instead.
    import concurrent.futures as cf

    small = ctx.pick("cB1", "cQuick")
    jobs = {
        "log_fixed": dict(cfg_text=cfg_text(scn, "fixed", False, True, REQ_INVS), coverage=True),
        "log_code": dict(cfg_text=cfg_text(scn, "code", False, True, [])),
        "code_req": dict(cfg_text=cfg_text(small, "code", False, False, REQ_INVS)),
        "neardup_code": dict(cfg_text=cfg_text(small, "code", True, False, ["OnceEach", "NoRaise", "Increasing"])),
    }
    if not ctx.quick:
        jobs["neardup_fixed"] = dict(cfg_text=cfg_text(small, "fixed", True, False, ["OnceEach", "NoRaise", "Increasing"]))
    with cf.ThreadPoolExecutor(max_workers=len(jobs)) as ex:
        futs = {name: ex.submit(run_tlc, "MCObsSchedule", None, workdir=ctx.work, name=name, workers=1, timeout=3000, **kw) for name, kw in jobs.items()}
        tlc = {name: f.result() for name, f in futs.items()}
    for name in jobs:
        ctx.add_tlc(tlc[name])
    logs = {}
    for variant in ("fixed", "code"):
        r = tlc[f"log_{variant}"]
        if variant == "fixed":
            if r["violated"]:
                ctx.notes.append(f"ObsSchedule fixed variant violates {r['violated']}")
            if r.get("coverage_zero"):
                zero = [a for a in r["coverage_zero"] if a in ("Pick", "ApplyAtZero", "Step", "Finish")]
                if zero:
                    ctx.notes.append(f"actions never taken: {zero}")
        d = {}
        for t in printed_tuples(r["out"], "S"):
            _, D, dt, obs, dflt, dup, rec, raised = t
            key = json.dumps([D, dt, [[o["has"], sorted(o["own"]["__set__"])] for o in obs], sorted(dflt["__set__"])])
            d[key] = {"D": D, "dt": dt, "obs": [{"has": o["has"], "own": sorted(o["own"]["__set__"])} for o in obs], "dflt": sorted(dflt["__set__"]),
                      "rec": [list(x) for x in rec], "raised": raised}
        logs[variant] = d
        ctx.log(f"TLC {variant}: {r['distinct']} states, {len(d)} scenarios, violated={r['violated']}")
    if set(logs["fixed"]) != set(logs["code"]) or len(logs["fixed"]) < 1000:
        raise MachineryError(f"scenario logs differ / too small: {len(logs['fixed'])} vs {len(logs['code'])}")
    r_c = tlc["code_req"]
    code_cex = None
    if r_c["violated"]:
        st = parse_counterexample(r_c["out"])
        code_cex = {"violated": r_c["violated"], "sc": st[-1]["vars"].get("sc") if st else None, "rec": st[-1]["vars"].get("rec") if st else None}
    ctx.coverage["model_code_variant"] = {"violated": r_c["violated"], "counterexample": code_cex}
    n_code_bad = sum(1 for k, v in logs["code"].items() if any(sorted(set(v["rec"][j])) != (v["obs"][j]["own"] if v["obs"][j]["has"] else v["dflt"]) for j in range(2)))
    ctx.coverage["model_code_variant"]["scenarios_violating"] = n_code_bad
    for variant in ("code", "fixed"):
        if f"neardup_{variant}" in tlc:
            ctx.coverage.setdefault("model_with_duplicated_target_points", {})[variant] = [v[1] for v in tlc[f"neardup_{variant}"]["violated"]]
    ctx.log(f"TLC code variant: violated {r_c['violated']} ({n_code_bad} scenarios over-/under-record); with duplicated target points: {ctx.coverage['model_with_duplicated_target_points']}")

    # ---------------------------------------------------------------- (2) binding A
    scen = [logs["fixed"][k] for k in sorted(logs["fixed"])]
    keys = sorted(logs["fixed"])
    specs = a_specs(ctx, scen)
    rng = ctx.rng
    idx = list(range(len(specs)))
    rng.shuffle(idx)
    n_sv = ctx.pick(1200, len(specs))
    n_mps = ctx.pick(40, 600)
    n_dmrg = ctx.pick(16, 200)
    # scenarios where the two model variants differ are the interesting ones: take them first for mps / dmrg
    differ = [i for i in idx if logs["fixed"][keys[specs[i]["scn"]]]["rec"] != logs["code"][keys[specs[i]["scn"]]]["rec"]]
    same = [i for i in idx if i not in set(differ)]
    runs = []
    for i in idx[:n_sv]:
        runs.append(dict(specs[i], backend="sv"))
    for i in (differ[: n_mps // 2] + same[: n_mps - n_mps // 2]):
        runs.append(dict(specs[i], backend="mps"))
    for i in (differ[n_mps // 2: n_mps // 2 + n_dmrg // 2] + same[n_mps: n_mps + n_dmrg - n_dmrg // 2]):
        runs.append(dict(specs[i], backend="dmrg"))
    rs = r_specs(ctx)
    for j, s in enumerate(rs):
        runs.append(dict(s, backend="sv"))
        if j < 21 or j % ctx.pick(12, 6) == 0:
            runs.append(dict(s, backend="mps"))
        if j < 21 and j % 3 == 0 or j % ctx.pick(40, 15) == 0:
            runs.append(dict(s, backend="dmrg"))
    for i, s in enumerate(runs):
        s["id"] = i + 1
    ctx.log(f"{len(runs)} real runs ({sum(1 for r in runs if r['backend'] == 'sv')} sv, {sum(1 for r in runs if r['backend'] == 'mps')} mps, {sum(1 for r in runs if r['backend'] == 'dmrg')} dmrg)")
    results = pmap(obs_case, runs, procs=procs, chunksize=8)

    follows = {"fixed": 0, "code": 0, "both": 0, "neither": 0}
    neither_ex = []
    n_skip = n_invalid = n_ok = 0
    hook_mismatch = 0
    by_backend: dict[str, int] = {}
    for spec, res in zip(runs, results):
        if "invalid" in res:
            n_invalid += 1
            continue
        if not decidable(spec, res["Deff"]):
            n_skip += 1
            continue
        by_backend[spec["backend"]] = by_backend.get(spec["backend"], 0) + 1
        ctx.case((spec["stratum"], spec["backend"], spec["D"], repr(spec["dt"]), json.dumps(spec["obs"]), json.dumps(spec["default"]), spec["mod"]),
                 nontrivial=True, sample={k: spec[k] for k in ("backend", "D", "dt", "obs", "default")} | {"recorded": res.get("times"), "raises": res.get("raises")})
        bad = judge(spec, res)
        for key, what, wit in bad:
            rep.violation(key, what, {"spec": {k: spec[k] for k in ("backend", "D", "dt", "mod", "obs", "default")}, "witness": wit,
                                      "how": "Backend(seq, config=Config(dt=dt, observables=[Occupation(evaluation_times=obs[0], tag_suffix='o0'), Energy(evaluation_times=obs[1], tag_suffix='o1'), ...], default_evaluation_times=default, log_level=100)).run().get_result_times(tag); 2 atoms 7 um apart, constant pulse of D ns"})
        if not bad:
            n_ok += 1
        # observation consistency: hook events vs get_result_times
        if "times" in res:
            for tag, ts in res["times"].items():
                if res["ev_times"].get(tag, []) != ts:
                    hook_mismatch += 1
        # which mechanism variant does the real code follow on this scenario?
        if spec["stratum"] == "A" and "times" in res:
            k = keys[spec["scn"]]
            inv = {v: int(q) for q, v in spec["map"].items()}

            def to_ticks(ts):
                out = []
                for t in ts:
                    m = [q for v, q in inv.items() if abs(v - t) <= tg.REL_RES]
                    out.append(m[0] if m else -1)
                return out
            real = [to_ticks(res["times"].get(tag, [])) for tag in res["tags"]]
            f = real == logs["fixed"][k]["rec"]
            c = real == logs["code"][k]["rec"]
            follows["both" if f and c else "fixed" if f else "code" if c else "neither"] += 1
            if not f and not c and len(neither_ex) < 3:
                neither_ex.append({"spec": {kk: spec[kk] for kk in ("backend", "D", "dt", "obs", "default")}, "real": real, "fixed": logs["fixed"][k]["rec"], "code": logs["code"][k]["rec"]})
    ctx.traces_validated += sum(follows.values())
    ctx.coverage["binding_A"] = {"runs_judged": sum(by_backend.values()), "by_backend": by_backend, "held": n_ok, "undecidable_skipped": n_skip, "rejected_by_pulser": n_invalid,
                                 "real_code_follows_model_variant": follows, "hook_vs_results_mismatches": hook_mismatch}
    ctx.coverage["violations_per_key"] = dict(rep.counts)
    ctx.log(f"binding A: {ctx.coverage['binding_A']}")
    raised_runs = sum(v for k, v in rep.counts.items() if k.startswith("run-raises"))
    if follows["neither"]:
        ctx.model_drift(f"{follows['neither']} real runs follow neither mechanism variant of ObsSchedule.tla, e.g. {neither_ex[:1]}")
    elif follows["code"] and follows["fixed"]:
        ctx.model_drift(f"real runs follow the 'code' variant on {follows['code']} and only the 'fixed' variant on {follows['fixed']} distinguishing scenarios")
    elif follows["code"]:
        ctx.notes.append("the real code follows mechanism variant 'code' (own OR default pre-filter): TLC's counter-examples for that variant transfer and are reproduced above")
    elif follows["fixed"]:
        ctx.notes.append("the real code follows mechanism variant 'fixed': TLC's proof of the requirement for that variant transfers to the enumerated schedules")
    if hook_mismatch:
        ctx.model_drift(f"{hook_mismatch} observables whose hook-derived record times differ from Results.get_result_times")
    if sum(by_backend.values()) < 100 or len(by_backend) < 3:
        raise MachineryError(f"too few real runs judged: {by_backend}")
    ctx.coverage["rule"] = ("one case per real run: (stratum, backend, duration, dt, per-observable requested times, default times, modulation); stratum A = every schedule TLC "
                            "enumerates (2 observables x {no own times, 1..2 of 6 pool points} x 1..2 default times, 4 (duration, dt) classes) instantiated on real durations; "
                            "stratum R = linspace / rational / irrational / near-coincident / 0 / 1 times, dt dividing or not, modulation")
    ctx.coverage["exhaustive"] = not ctx.quick
