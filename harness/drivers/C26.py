"""C26 - resuming from an autosave gives the same results as an uninterrupted run.

(1) TLC: MPSRun.tla (TDVP / DMRG progress machine, autosave after any progress(), crash after any save,
    MPSBackend.resume, both return paths) -- ReturnedComplete, ReturnedInRegisterOrder, ResumeRestores,
    StepsInOrder, OneFillPerStep, Terminates.  The mechanism switch ResumePermutes is OBSERVED from the
    real resume path (is the inverse permutation applied?), not assumed.
(2) Fault enumeration on the real code: a crash is injected after EVERY autosave of small real runs
    (forced autosave after each progress()), MPSBackend.resume(file) is called and its Results are
    compared with the uninterrupted run (values, times, atom order, file removed); TDVP with the
    optimiser's permutation on / off, DMRG, noisy (noisy: completion, times, order, ranges; distribution
    over seeds in the thorough tier).
(3) Every crashed-and-resumed execution's hook trace is validated by MPSRunTrace.tla.
"""
from __future__ import annotations

import os
from pathlib import Path

import numpy as np

from harness.core import Ctx, MachineryError
from harness.mpstrace import CONTROL, compare_results, project
from harness.pool import pmap
from harness.tlc import run_tlc
from harness.traces import validate_batch

SCEN = {
    # name: (n atoms, coords order, duration, dt, solver, reorder, noise)
    "tdvp3": dict(n=3, shuffle=False, duration=30, dt=10.0, kind="tdvp", reorder=False),
    "tdvp4_reorder": dict(n=4, shuffle=True, duration=20, dt=10.0, kind="tdvp", reorder=True),
    "tdvp2": dict(n=2, shuffle=False, duration=30, dt=10.0, kind="tdvp", reorder=True),
    "dmrg3_reorder": dict(n=3, shuffle=True, duration=20, dt=10.0, kind="dmrg", reorder=True),
    "noisy3": dict(n=3, shuffle=False, duration=30, dt=10.0, kind="noisy", reorder=False),
    "tdvp5_reorder": dict(n=5, shuffle=True, duration=20, dt=10.0, kind="tdvp", reorder=True),
    # state-preparation errors: the snapshot must carry (or rebuild) everything derived from the bad-atom draw
    "spam4": dict(n=4, shuffle=True, duration=20, dt=10.0, kind="spam", reorder=True),
}


def _spec(sc: dict) -> dict:
    from harness.smallruns import small_spec

    spec = small_spec(sc["n"], sc["duration"], spacing=6.5, dmm=True)
    if sc["shuffle"]:
        # insertion order differs from the spatial order, so the bandwidth optimiser returns a non-identity permutation
        n = sc["n"]
        order = list(range(0, n, 2)) + list(range(1, n, 2))
        coords = spec["coords"]
        spec["coords"] = [coords[i] for i in order]
    return spec


def _config(sc: dict):
    import pulser
    from emu_mps import MPSConfig, Solver
    from harness.smallruns import observables

    kw = dict(dt=sc["dt"], log_level=100, optimize_qubit_ordering=sc["reorder"],
              observables=observables(["occupation", "energy", "correlation_matrix"], [0.0, 0.5, 1.0]))
    if sc["kind"] == "dmrg":
        kw["solver"] = Solver.DMRG
    if sc["kind"] == "noisy":
        kw["noise_model"] = pulser.NoiseModel(relaxation_rate=2.0, dephasing_rate=1.0)
    if sc["kind"] == "spam":
        kw["noise_model"] = pulser.NoiseModel(state_prep_error=0.4)
    return MPSConfig(**kw)


def crash_worker(job: dict) -> dict:
    """job: {scen, crash_after (int|None), seed, dir}.  Runs, optionally crashes after save k and resumes."""
    import random
    import torch
    from emu_base import _verif
    from emu_mps import MPSBackend
    from harness.gen import seqs
    from harness.smallruns import results_table

    sc = SCEN[job["scen"]]
    wd = Path(job["dir"])
    wd.mkdir(parents=True, exist_ok=True)
    old = os.getcwd()
    os.chdir(wd)
    os.environ["PASQAL_IO_EMULATORS_VERIF_AUTOSAVE"] = "always"
    if job["crash_after"] is not None:
        os.environ["PASQAL_IO_EMULATORS_VERIF_CRASH_AFTER_SAVE"] = str(job["crash_after"])
    else:
        os.environ.pop("PASQAL_IO_EMULATORS_VERIF_CRASH_AFTER_SAVE", None)
    ev: list = []
    _verif.reset()
    _verif.set_sink(ev)
    random.seed(job["seed"])
    torch.manual_seed(job["seed"])
    out = {"job": job, "error": None, "crashed": False, "results": None, "resume_error": None, "file_left": None}
    try:
        seq = seqs.build_sequence(_spec(sc))
        out["register"] = [str(q) for q in seq.register.qubit_ids]
        if sc["kind"] == "spam":
            # choose (deterministically from the job seed) a draw with at least one bad and at least two good atoms; the
            # reference run and the interrupted run use the same seed, hence the same draw
            import numpy as _np
            from emu_base import PulserData
            s0 = 4242
            for s_ in range(s0, s0 + 200):
                _np.random.seed(s_)
                bad = list(next(iter(PulserData(sequence=seq, config=_config(sc), dt=sc["dt"]).get_sequences())).bad_atoms)
                nb = sum(1 for b in bad if b)
                if 1 <= nb <= sc["n"] - 2:
                    break
            _np.random.seed(s_)
            out["bad_atoms"] = [bool(b) for b in bad]
        try:
            res = MPSBackend(seq, config=_config(sc)).run()
            out["results"] = results_table(res)
        except _verif.VerifCrash:
            out["crashed"] = True
        saves = [e for e in ev if e["ev"] == "save"]
        out["n_saves"] = len(saves)
        news = [e for e in ev if e["ev"] == "mps_new"]
        out["perm"] = news[0]["perm"] if news else None
        if out["crashed"]:
            os.environ.pop("PASQAL_IO_EMULATORS_VERIF_CRASH_AFTER_SAVE", None)
            ev.append({"ev": "crash"})
            f = saves[-1]["file"] if saves else None
            if job.get("relocate") and f:
                # the snapshot is moved (another scratch directory / machine) before it is resumed
                import shutil
                newdir = wd.parent / (wd.name + "_moved")
                newdir.mkdir(parents=True, exist_ok=True)
                nf = newdir / ("rescued_" + Path(f).name)
                shutil.move(f, nf)
                os.chdir(newdir)
                if job["relocate"] == "purge":
                    shutil.rmtree(wd, ignore_errors=True)
                f = str(nf)
            out["file"] = f
            try:
                res = MPSBackend.resume(f)
                out["results"] = results_table(res)
            except BaseException as e:  # noqa
                out["resume_error"] = f"{type(e).__name__}: {e}"
            out["file_left"] = bool(f and Path(f).exists())
            leftovers = [str(p) for d in (wd, wd.parent / (wd.name + "_moved")) if d.exists() for p in d.iterdir() if p.suffix in (".dat", ".new", ".bak")]
            out["leftovers"] = leftovers
            out["permute_on_resume"] = any(e["ev"] == "mps_permute" for e in ev[ev.index({"ev": "crash"}):])
    except BaseException as e:  # noqa
        out["error"] = f"{type(e).__name__}: {e}"
    finally:
        _verif.set_sink(None)
        os.environ.pop("PASQAL_IO_EMULATORS_VERIF_AUTOSAVE", None)
        os.environ.pop("PASQAL_IO_EMULATORS_VERIF_CRASH_AFTER_SAVE", None)
        os.chdir(old)
    out["events"] = [e for e in ev if e["ev"] in CONTROL or e["ev"] == "crash"]
    for e in out["events"]:
        e.pop("matrix", None)
        e.pop("weights", None)
    return out


def _model(ctx: Ctx, n: int, k: int, mode: str, reorder: bool, resume_permutes: bool, tables: str = "pickled") -> dict:
    cfg = f"""SPECIFICATION Spec
CONSTANTS
  N = {n}
  K = {k}
  Mode = "{mode}"
  Reorder = {"TRUE" if reorder else "FALSE"}
  MaxSweeps = 3
  ResumePermutes = {"TRUE" if resume_permutes else "FALSE"}
  AllowCrash = TRUE
  UpdateAfterRebuild = TRUE
  Dark = 1
  TablesOnResume = "{tables}"
INVARIANT BathShape
INVARIANT CentreFollowsSweep
INVARIANT OneFillPerStep
INVARIANT DriveWritten
INVARIANT TablesMatchSites
INVARIANT ReturnedComplete
INVARIANT ReturnedInRegisterOrder
PROPERTY StepsInOrder
PROPERTY ResumeRestores
PROPERTY Terminates
"""
    res = run_tlc("MCMPSRun", None, workdir=ctx.work, name=f"mc_{mode}_{n}_{k}_{int(reorder)}_{tables}", cfg_text=cfg, workers=4, coverage=(tables == "pickled"))
    ctx.add_tlc(res)
    return res


def run(ctx: Ctx) -> None:
    ctx.level = "fault_enumeration"
    ctx.assumptions += [
        "crash = exception raised right after a completed autosave (guarded control); every progress() boundary is a save point because the autosave interval is forced to 'elapsed'",
        "noiseless comparison tolerance 1e-7 absolute; noisy runs: Python's global RNG state is not part of the snapshot, so only distributional equality is demanded",
        "MPSRun.tla mechanism switch ResumePermutes is read off the real resume path",
    ]
    scen_names = ["tdvp3", "tdvp4_reorder", "dmrg3_reorder", "noisy3", "spam4"] if ctx.quick else list(SCEN)
    # ---- uninterrupted reference runs
    base_jobs = [{"scen": s, "crash_after": None, "seed": 100 + ctx.seed, "dir": str(ctx.work / f"ref_{s}")} for s in scen_names]
    base = {r["job"]["scen"]: r for r in pmap(crash_worker, base_jobs)}
    jobs = []
    for s in scen_names:
        b = base[s]
        if b["error"] or b["results"] is None:
            raise MachineryError(f"reference run {s} failed: {b['error']}")
        if b["n_saves"] == 0:
            raise MachineryError(f"{s}: no autosave happened (forced-autosave control / save hook missing?)")
        if b["job"]["scen"].endswith("reorder") and b["perm"] == sorted(b["perm"]):
            raise MachineryError(f"{s}: scenario meant to exercise a non-identity permutation got identity {b['perm']}")
        ks = list(range(1, b["n_saves"] + 1))
        if ctx.quick and len(ks) > 10:
            ks = sorted(set(ks[:4] + ks[-3:] + ctx.rng.sample(ks, 3)))
        for k in ks:
            jobs.append({"scen": s, "crash_after": k, "seed": 100 + ctx.seed, "dir": str(ctx.work / f"crash_{s}_{k}")})
        # the snapshot may be resumed from another place than where it was written
        for mode in ("purge", "keep"):
            k = ks[len(ks) // 2] if mode == "purge" else ks[max(0, len(ks) // 3)]
            jobs.append({"scen": s, "crash_after": k, "seed": 100 + ctx.seed, "dir": str(ctx.work / f"reloc_{mode}_{s}_{k}"), "relocate": mode})
    res = pmap(crash_worker, jobs)
    traces = []
    meta = {}
    resume_permutes_seen = set()
    for r in res:
        j = r["job"]
        s = j["scen"]
        sc = SCEN[s]
        b = base[s]
        key = ("crash", s, j["crash_after"], j.get("relocate"))
        if r["error"]:
            raise MachineryError(f"crash run {key} failed in the harness: {r['error']}")
        if not r["crashed"]:
            raise MachineryError(f"{key}: crash injection did not fire")
        ctx.case(key, sample={"scenario": s, "crash_after_save": j["crash_after"], "saves_in_run": b["n_saves"], "perm": b["perm"], "relocate": j.get("relocate")})
        where = f"{sc['kind']}:{'reorder' if sc['reorder'] else 'noreorder'}"
        if j.get("relocate"):
            where += ":relocated"
        if r["resume_error"]:
            ctx.violation(f"resume:{where}:raises:{r['resume_error'].split(':')[0]}", f"MPSBackend.resume raised after a crash following autosave #{j['crash_after']}: {r['resume_error']}", {"job": j})
            continue
        if r["file_left"] or r.get("leftovers"):
            ctx.violation(f"resume:{where}:autosave-file-not-removed", f"autosave file(s) still present after the resumed run finished: {r.get('leftovers') or r.get('file')}", {"job": j})
        resume_permutes_seen.add(bool(r.get("permute_on_resume")))
        if sc["kind"] == "noisy":
            cmp = compare_results(r["results"], b["results"], atol=10.0)  # values differ by construction (different RNG stream)
            rng_ok = all(0 - 1e-9 <= x <= 1 + 1e-9 for _, v in r["results"].get("occupation", []) for x in np.asarray(v).reshape(-1))
            cmp["valuesOK"] = rng_ok
        else:
            cmp = compare_results(r["results"], b["results"], atol=1e-7)
        order_ok = r["results"]["atom_order"] == r["register"]
        ret = {"path": "resume", "orderOK": order_ok and cmp["orderOK"], "valuesOK": cmp["valuesOK"], "timesOK": cmp["timesOK"]}
        tr = project(r["events"], len(traces) + 1, ret=ret)
        traces.append(tr)
        meta[tr["id"]] = (j, cmp, r["results"]["atom_order"], r["register"])
    if traces:
        verdicts = validate_batch(ctx, "MPSRunTrace", traces, "resume")
        for tr in traces:
            v = verdicts[tr["id"]]
            if v[0] == "REJECT":
                j, cmp, ao, reg = meta[tr["id"]]
                sc = SCEN[j["scen"]]
                where = f"{sc['kind']}:{'reorder' if sc['reorder'] else 'noreorder'}"
                ctx.violation(f"resume:{where}:{v[2]}",
                              f"crash after autosave #{j['crash_after']} of scenario {j['scen']} then resume: {v[2]} ({'; '.join(cmp['why'][:3])}; atom_order {ao} vs register {reg})",
                              {"job": j, "event_index": v[1], "differences": cmp["why"], "atom_order": ao, "register": reg})
    # ---- the model, with the observed mechanism switch
    rp = (resume_permutes_seen == {True}) if resume_permutes_seen else True
    ctx.coverage["observed_ResumePermutes"] = sorted(resume_permutes_seen)
    grid = [(1, 2, "tdvp"), (2, 2, "tdvp"), (3, 2, "tdvp"), (4, 2, "tdvp"), (2, 2, "dmrg"), (3, 2, "dmrg")]
    if not ctx.quick:
        grid += [(4, 3, "tdvp"), (5, 3, "tdvp"), (4, 2, "dmrg"), (3, 3, "tdvp")]
    for (n, k, mode) in grid:
        for reorder in (False, True):
            m = _model(ctx, n, k, mode, reorder, rp)
            if m["violated"]:
                ctx.notes.append(f"MPSRun model N={n} K={k} {mode} reorder={reorder} ResumePermutes={rp}: violates {m['violated']}")
                if ctx.n_violations == 0 and not ctx.known_seen:
                    # the model of the code violates the requirement but no real crash/resume reproduced it
                    ctx.model_drift(f"MPSRun.tla predicts {m['violated']} for N={n},K={k},{mode},reorder={reorder} but no real resumed run showed it")
            if m.get("coverage_zero"):
                unexpected = [a for a in m["coverage_zero"] if not (a.startswith("Dmrg") and mode == "tdvp") and not (a.startswith("Tdvp") and mode == "dmrg")]
                if unexpected:
                    ctx.notes.append(f"N={n} K={k} {mode}: never taken {unexpected}")
    # self-test of TablesMatchSites: a resume that rebuilds the drive tables without removing the dark atoms' columns must be rejected
    st = _model(ctx, 3, 2, "tdvp", True, rp, tables="rebuilt-unfiltered")
    if not any(v[1] == "TablesMatchSites" for v in st["violated"]):
        raise MachineryError("mechanism variant 'drive tables rebuilt unfiltered on resume' not rejected by TablesMatchSites (vacuous requirement)")
    # ---- noisy: distribution over seeds (thorough)
    if not ctx.quick and "noisy3" in base:
        nseeds = 40
        b = base["noisy3"]
        rj = [{"scen": "noisy3", "crash_after": None, "seed": 5000 + i, "dir": str(ctx.work / f"nz_ref_{i}")} for i in range(nseeds)]
        cj = [{"scen": "noisy3", "crash_after": 1 + (i * 7) % b["n_saves"], "seed": 9000 + i, "dir": str(ctx.work / f"nz_crash_{i}")} for i in range(nseeds)]
        rr = pmap(crash_worker, rj + cj)
        def final_occ(r):
            return float(np.mean(np.asarray(r["results"]["occupation"][-1][1])))
        a = np.array([final_occ(r) for r in rr[:nseeds] if r["results"]])
        c = np.array([final_occ(r) for r in rr[nseeds:] if r["results"]])
        if len(a) > 5 and len(c) > 5:
            se = float(np.sqrt(a.var(ddof=1) / len(a) + c.var(ddof=1) / len(c))) + 1e-12
            z = abs(a.mean() - c.mean()) / se
            ctx.coverage["noisy_two_sample_z"] = round(float(z), 3)
            ctx.case(("noisy-distribution", nseeds))
            if z > 6.5:  # two-sided p < 1e-10
                ctx.violation("resume:noisy:distribution-differs", f"mean final occupation of resumed noisy runs differs from uninterrupted ones (z={z:.1f})",
                              {"uninterrupted_mean": float(a.mean()), "resumed_mean": float(c.mean())})
    ctx.coverage["rule"] = "one case per (scenario, k): crash injected right after the k-th autosave (every progress() boundary is a save point), then MPSBackend.resume"
    ctx.coverage["exhaustive"] = not ctx.quick
